-------------------------- MODULE MC_ObjectLikely --------------------------
(***************************************************************************)
(* Histories that interleave maximize / minimize with assignments to the   *)
(* language, script and region fields and with variant changes, over the   *)
(* real CLDR table (C10, C07, C08).  The history is part of the state, so  *)
(* every distinct history of <= K operations is a test case; hidden state  *)
(* in the implementation (a cache, a flag) cannot hide behind the abstract *)
(* value as it could in an edge-by-edge replay.                            *)
(***************************************************************************)
EXTENDS ObjectLikely

CONSTANTS K, Start
VARIABLES obj, hist

Ops == { OpS("set_language", x) : x \in { B("en"), B("zh"), B("sr"), B("und"), B("qqq") } }
       \cup { OpS("set_script", x) : x \in { B("Latn"), B("Hant"), B("Cyrl") } }
       \cup { OpS("set_region", x) : x \in { B("US"), B("TW"), B("RS") } }
       \cup { OpV("set_variants", x) : x \in { <<B("valencia")>> } }
       \cup { Op0("clear_language"), Op0("clear_script"), Op0("clear_region"), Op0("maximize"), Op0("minimize"), Op0("reparse") }

StartText == IF Start = "default" THEN <<>> ELSE B("en-Latn-US-valencia-u-ca-buddhist-x-a")
StartVal == IF Start = "default" THEN LocDefault ELSE ParseLoc(StartText).val

Init == obj = StartVal /\ hist = <<>>
Next == /\ Len(hist) < K
        /\ \E o \in Ops : obj' = ApplyOpL(obj, o, FbNone).obj /\ hist' = Append(hist, o)
Spec == Init /\ [][Next]_<<obj, hist>>

TypeOK == ObjOK(obj)
RoundTrip == ObjRoundTrip(obj)
(* maximize / minimize touch nothing but language, script, region (C07/C08)  *)
LikelyTouchesOnlyTheTriple ==
    \A o \in {Op0("maximize"), Op0("minimize")} :
        LET r == ApplyOpL(obj, o, FbNone).obj IN
        [r EXCEPT !.id = [r.id EXCEPT !.lang = obj.id.lang, !.script = obj.id.script, !.region = obj.id.region]] = obj
(* minimizing twice = once; maximizing twice = once; on every reachable value *)
Idempotent ==
    /\ LET m == ApplyOpL(obj, Op0("maximize"), FbNone).obj IN ApplyOpL(m, Op0("maximize"), FbNone).obj = m
    /\ LET n == ApplyOpL(obj, Op0("minimize"), FbNone).obj IN ApplyOpL(n, Op0("minimize"), FbNone).obj = n

HistCase == [k |-> "hist", start |-> StartText, startval |-> StartVal, steps |-> StepsOfL(StartVal, hist)]
EmitHist == hist # <<>> => PrintT("CASE " \o ToJson(HistCase))
=============================================================================
