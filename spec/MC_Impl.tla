------------------------------ MODULE MC_Impl ------------------------------
(***************************************************************************)
(* Model-checks ImplParser (the parser as implemented, step by step) on    *)
(* every token sequence of the bounded space: a behaviour first builds an  *)
(* input (appending tokens while the abstract automaton has not rejected   *)
(* it), then runs the implementation-shaped parser to completion.          *)
(* Checked: Progress (ranking function), Refines (C03/C04/C05 zones), and  *)
(* every finished run is printed as a case carrying BOTH the abstract      *)
(* answer and the step model's exact answer.                               *)
(***************************************************************************)
EXTENDS ImplParser, Alphabets, TLC, Json

CONSTANTS Depth, Alpha

Alphabet == IF Alpha = "tiny" THEN TokensLocTiny ELSE IF Alpha = "small" THEN TokensLocSmall ELSE TokensLoc

Init == /\ toks \in { <<t>> : t \in Alphabet }
        /\ k = 1 /\ pc = "build" /\ acc = Acc0
Grow == /\ pc = "build" /\ Len(toks) < Depth
        /\ ParseLocTokens(toks).zone # "reject"
        /\ \E t \in Alphabet : toks' = Append(toks, t)
        /\ UNCHANGED <<k, pc, acc>>
Start == pc = "build" /\ pc' = "lang" /\ UNCHANGED <<toks, k, acc>>
Next == Grow \/ Start \/ Step
Spec == Init /\ [][Next]_ivars

ImplProgress == [][(pc # "build" /\ Step) => Rank' < Rank]_ivars

CaseRec ==
    LET a == Abstract IN
    [k |-> "parse", toks |-> toks,
     loc |-> [zone |-> a.zone, why |-> a.why, val |-> a.val, ser |-> SerLoc(a.val)],
     impl |-> [ok |-> pc = "done", val |-> IF pc = "done" THEN ImplVal ELSE LocDefault,
               ser |-> IF pc = "done" THEN SerLoc(ImplVal) ELSE <<>>]]
EmitCase == Terminated => PrintT("CASE " \o ToJson(CaseRec))
=============================================================================
