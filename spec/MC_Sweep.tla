------------------------------ MODULE MC_Sweep ------------------------------
(***************************************************************************)
(* Whole-universe sweep of the likely-subtags and direction queries,       *)
(* decided per EQUIVALENCE CLASS (DESIGN.md section 4.3).                  *)
(*                                                                         *)
(* The universe is every (language, script, region) with the language one  *)
(* of the 7143 CLDR languages (or und, or unknown), the script one of the   *)
(* 164 CLDR scripts (or absent, or unknown) and the region one of the 259   *)
(* CLDR regions (or absent, or unknown): about 3.1e8 triples.  Maximize     *)
(* and Minimize inspect a subtag only by comparing it with table keys and   *)
(* by copying it, so for a language x the answer depends on the script only *)
(* through "which of the scripts that occur in a key or value for x is it,  *)
(* if any" -- likewise for the region.  This module                         *)
(*   - derives that partition from the data (RelS / RelR),                  *)
(*   - computes, for every class, the PATTERN of the allowed answers: a     *)
(*     component copied from an "other" input is written $s / $r / $l,      *)
(*   - checks on the specification that the pattern does not depend on the  *)
(*     representative (Uniform) and that real CLDR subtags outside the      *)
(*     relevant sets behave like the representative (RelevantSufficient),   *)
(*   - prints one case per class.                                           *)
(* The harness then calls the real code on EVERY triple of the universe,    *)
(* maps it to its class and compares the observed pattern with the allowed  *)
(* ones (spec -> impl, with the class expansion on the implementation       *)
(* side).  The size of the universe it must report is fixed here too.       *)
(*                                                                         *)
(* Part = "known": one state per (known language, script class, region      *)
(*                 class); "und": und and the unknown language x every      *)
(*                 script x every region, individually; "dir": direction    *)
(*                 classes.                                                 *)
(***************************************************************************)
EXTENDS Cldr

CONSTANT Part
VARIABLES cl, cs, cr, ph

vars == <<cl, cs, cr, ph>>

(* representatives of "a subtag the table does not know" (two of each, to   *)
(* check that the choice does not matter)                                   *)
OtherS == "Qabx"   OtherS2 == "Qaby"
OtherR == "QX"     OtherR2 == "QY"
UnknownL == "qqq"  UnknownL2 == "qqqqqq"

AllS == ({ k[2] : k \in KeySet } \cup { T[k][2] : k \in KeySet }) \ {None}
AllR == ({ k[3] : k \in KeySet } \cup { T[k][3] : k \in KeySet }) \ {None}
Langs == { k[1] : k \in KeySet } \ {UndL}

KeysOf(x) == { q \in KeySet : q[1] = x }
RelS(x) == ({ k[2] : k \in KeysOf(x) } \cup { T[k][2] : k \in KeysOf(x) }) \ {None}
RelR(x) == ({ k[3] : k \in KeysOf(x) } \cup { T[k][3] : k \in KeysOf(x) }) \ {None}

ASSUME /\ {OtherS, OtherS2} \cap (AllS \cup ListedScripts) = {}
       /\ {OtherR, OtherR2} \cap AllR = {}
       /\ {UnknownL, UnknownL2} \cap (Langs \cup D.rtlLangs \cup { T[k][1] : k \in KeySet }) = {}
       /\ \A x \in Langs : <<x, None, None>> \in KeySet     \* every language has its own entry

(* ----- patterns ----------------------------------------------------------- *)
Ph(x, rep, name) == IF x = rep THEN name ELSE x
PatOf(ans, l, s, r) ==       \* ans = <<changed, <<l', s', r'>> >>
    << ans[1], << Ph(ans[2][1], IF l \in {UnknownL, UnknownL2} THEN l ELSE "\n", "$l"),
                  Ph(ans[2][2], IF s \in {OtherS, OtherS2} THEN s ELSE "\n", "$s"),
                  Ph(ans[2][3], IF r \in {OtherR, OtherR2} THEN r ELSE "\n", "$r") >> >>
MaxPats(l, s, r) == { PatOf(x, l, s, r) : x \in AllowedMax(T, l, s, r) }
MinPats(l, s, r) == { PatOf(x, l, s, r) : x \in AllowedMin(T, l, s, r) }

Alt(x) == CASE x = OtherS -> OtherS2 [] x = OtherR -> OtherR2 [] x = UnknownL -> UnknownL2 [] OTHER -> x

(* ----- the state space ------------------------------------------------------ *)
InitKnown == cl \in Langs /\ cs = None /\ cr = None /\ ph = 0
NextKnown == /\ ph = 0 /\ ph' = 1 /\ UNCHANGED cl
             /\ cs' \in RelS(cl) \cup {None, OtherS}
             /\ cr' \in RelR(cl) \cup {None, OtherR}
InitUnd == cl \in {UndL, UnknownL} /\ cs = None /\ cr = None /\ ph = 0
NextUnd == /\ ph = 0 /\ ph' = 1 /\ UNCHANGED cl
           /\ cs' \in AllS \cup {None, OtherS}
           /\ cr' \in AllR \cup {None, OtherR}
(* direction classes: (an RTL language or "any other language") x (a listed  *)
(* script, no script, or "any other script"); the region never matters       *)
InitDir == cl \in D.rtlLangs \cup {UnknownL, UndL} /\ cs = None /\ cr = None /\ ph = 0
NextDir == /\ ph = 0 /\ ph' = 1 /\ UNCHANGED <<cl, cr>>
           /\ cs' \in ListedScripts \cup {None, OtherS}

Init == \/ (CASE Part = "known" -> InitKnown [] Part = "und" -> InitUnd [] Part = "dir" -> InitDir)
        \/ cl = "*" /\ cs = None /\ cr = None /\ ph = 9          \* the universe itself
Next == CASE Part = "known" -> NextKnown [] Part = "und" -> NextUnd [] Part = "dir" -> NextDir
Spec == Init /\ [][Next]_vars

(* ----- what TLC checks on the specification --------------------------------- *)
(* the pattern does not depend on which unknown subtag stands for the class   *)
Uniform == (ph = 1 /\ Part # "dir") =>
    /\ MaxPats(cl, cs, cr) = MaxPats(Alt(cl), Alt(cs), Alt(cr))
    /\ MinPats(cl, cs, cr) = MinPats(Alt(cl), Alt(cs), Alt(cr))
(* real CLDR subtags outside the relevant sets fall into the "other" class    *)
ProbeS == {"Latn", "Arab", "Cyrl", "Hans", "Deva", "Zzzz"}
ProbeR == {"US", "IN", "RU", "CN", "001", "ZZ", "BR"}
RelevantSufficient == (ph = 1 /\ Part = "known") =>
    /\ cs = OtherS => \A x \in (ProbeS \cap AllS) \ RelS(cl) :
           /\ { PatOf(a, cl, OtherS, cr) : a \in { <<b[1], <<b[2][1], Ph(b[2][2], x, OtherS), b[2][3]>> >> : b \in AllowedMax(T, cl, x, cr) } } = MaxPats(cl, cs, cr)
           /\ { PatOf(a, cl, OtherS, cr) : a \in { <<b[1], <<b[2][1], Ph(b[2][2], x, OtherS), b[2][3]>> >> : b \in AllowedMin(T, cl, x, cr) } } = MinPats(cl, cs, cr)
    /\ cr = OtherR => \A x \in (ProbeR \cap AllR) \ RelR(cl) :
           /\ { PatOf(a, cl, cs, OtherR) : a \in { <<b[1], <<b[2][1], b[2][2], Ph(b[2][3], x, OtherR)>> >> : b \in AllowedMax(T, cl, cs, x) } } = MaxPats(cl, cs, cr)
           /\ { PatOf(a, cl, cs, OtherR) : a \in { <<b[1], <<b[2][1], b[2][2], Ph(b[2][3], x, OtherR)>> >> : b \in AllowedMin(T, cl, cs, x) } } = MinPats(cl, cs, cr)
(* a known language always has its own entry, so the optional fallbacks never *)
(* come into play: exactly one allowed answer per class                       *)
KnownIsDeterministic == (ph = 1 /\ Part = "known") =>
    Cardinality(MaxPats(cl, cs, cr)) = 1 /\ Cardinality(MinPats(cl, cs, cr)) = 1
(* the rule subsets that CfgsFor keeps are the only ones that matter           *)
CfgReductionSound == (ph = 1 /\ Part # "dir" /\ (Part = "known" \/ cr \in {None, OtherR, "US", "001"})) =>
    /\ AllowedMax(T, cl, cs, cr) = AllowedMaxFull(T, cl, cs, cr)
    /\ AllowedMin(T, cl, cs, cr) = AllowedMinFull(T, cl, cs, cr)
(* C07 / C08 hold for the representative of every class                       *)
ClassLaws == (ph = 1 /\ Part # "dir") =>
    /\ LawsMax(T, cl, cs, cr, FbNone) /\ LawsMin(T, cl, cs, cr, FbNone) /\ NeverLonger(T, cl, cs, cr, FbNone)
(* direction of a class does not depend on the representative or the region   *)
DirUniform == (ph = 1 /\ Part = "dir") =>
    \A on \in BOOLEAN :
      /\ AllowedDir(cl, cs, None, on, <<>>) = AllowedDir(Alt(cl), Alt(cs), "US", on, <<>>)
      /\ Direction(T, D, cl, cs, None, on) \in AllowedDir(cl, cs, None, on, <<>>)
      (* every language CLDR never lists as right-to-left is in the class of the unknown one *)
      /\ cl = UnknownL => \A x \in Langs \ D.rtlLangs :
              AllowedDir(x, cs, None, on, <<>>) = AllowedDir(cl, cs, None, on, <<>>)

(* ----- cases ------------------------------------------------------------------ *)
Name(x) == CASE x = OtherS -> "$s" [] x = OtherR -> "$r" [] x = UnknownL -> "$l" [] OTHER -> x
SweepCase == [k |-> "sweep", l |-> Name(cl), s |-> Name(cs), r |-> Name(cr),
              max |-> SetToSeq(MaxPats(cl, cs, cr)), min |-> SetToSeq(MinPats(cl, cs, cr))]
DirCase == [k |-> "sweep_dir", l |-> IF cl = UnknownL THEN "$l" ELSE cl, s |-> Name(cs),
            on |-> SetToSeq(AllowedDir(cl, cs, None, TRUE, <<>>)),
            off |-> SetToSeq(AllowedDir(cl, cs, None, FALSE, <<>>))]
UniverseCase == [k |-> "sweep_universe", part |-> Part, langs |-> SetToSeq(Langs), scripts |-> SetToSeq(AllS),
                 regions |-> SetToSeq(AllR), listed |-> SetToSeq(ListedScripts), rtl |-> SetToSeq(D.rtlLangs),
                 nl |-> Cardinality(Langs), ns |-> Cardinality(AllS), nr |-> Cardinality(AllR)]
EmitCase == /\ ph = 1 => PrintT("CASE " \o ToJson(IF Part = "dir" THEN DirCase ELSE SweepCase))
            /\ ph = 9 => PrintT("CASE " \o ToJson(UniverseCase))
=============================================================================
