---------------------------- MODULE MC_Subtags ----------------------------
(***************************************************************************)
(* Bounded-exhaustive model of the four subtag productions at byte level.  *)
(* A state is a byte string; a step appends one byte.  A string containing *)
(* a non-alphanumeric byte fits no production and neither does any         *)
(* extension of it, so such strings are leaves once longer than FullLen.   *)
(***************************************************************************)
EXTENDS Subtags, TLC, Json

CONSTANTS MaxLen, FullLen, Alpha, Emit

VARIABLE s

(* first/last letter of each case, first/last digit, the bytes adjacent to *)
(* each range, separators, space, NUL, DEL, 0x80, a UTF-8 lead byte, 0xFF  *)
(* 43 '+': a sign that number parsers accept                                *)
Boundary == {97, 122, 65, 90, 48, 57, 64, 91, 96, 123, 47, 58, 45, 95, 46, 42, 32, 0, 127,
             128, 195, 255, 109, 77, 53, 43,
             44, 94}      \* ',' and '^': the neighbours of the two separators (a tokenizer that finds them with bit tricks)
Reduced  == {97, 90, 48, 57, 46, 128, 45, 0, 122}
Bytes == IF Alpha = "all" THEN 0..255 ELSE IF Alpha = "boundary" THEN Boundary ELSE Reduced

(* Alpha = "oneodd": at most ONE byte of the string ranges over all 256    *)
(* values, the others over the reduced set -- a production that gets the   *)
(* class of a single byte value wrong at some position is found without    *)
(* enumerating 256^n strings                                               *)
OddCount == Cardinality({ p \in 1..Len(s) : s[p] \notin Reduced })

(* Alpha = "fill1": every length 1..9, every position, EVERY byte value there,   *)
(* the other positions filled with one letter / capital / digit -- a production  *)
(* that mis-classifies or mis-folds one byte value at one position of a LONG     *)
(* subtag.  Alpha = "fill2": two positions ranging over all alphanumerics.       *)
Fill == {97, 90, 53}
Alnum62 == (48..57) \cup (65..90) \cup (97..122)
Fill1 == { [q \in 1..L |-> IF q = p THEN b ELSE f] : L \in 1..9, p \in 1..9, b \in 0..255, f \in Fill }
Fill2 == { [q \in 1..L |-> IF q = p1 THEN b1 ELSE IF q = p2 THEN b2 ELSE f] :
             L \in 2..8, p1 \in 1..8, p2 \in 1..8, b1 \in Alnum62, b2 \in {65, 77, 90, 97, 109, 122, 48, 57}, f \in {97, 90} }

Init == IF Alpha = "fill1" THEN s \in Fill1 ELSE IF Alpha = "fill2" THEN s \in Fill2 ELSE s = <<>>
Next == /\ Alpha \notin {"fill1", "fill2"}
        /\ Len(s) < MaxLen
        /\ IF Alpha = "oneodd"
             THEN \E b \in (IF OddCount = 0 THEN 0..255 ELSE Reduced) : s' = Append(s, b)
             ELSE /\ Len(s) < FullLen \/ AllAlnum(s)
                  /\ \E b \in Bytes : s' = Append(s, b)
Spec == Init /\ [][Next]_s

KindSeq == <<"language", "script", "region", "variant">>

(* ----- properties of the specification --------------------------------- *)
(* the productions depend only on length and per-byte class, are ASCII-only *)
AsciiOnly == (\E k \in Kinds : IsKind(k, s)) => AllAlnum(s) /\ Len(s) \in 2..8
(* canonical text is accepted again, is a fixpoint, and folds case only     *)
CanonFix == \A k \in Kinds : IsKind(k, s) =>
               LET c == CanonKind(k, s) IN
               /\ IsKind(k, c) /\ CanonKind(k, c) = c
               /\ LowerSeq(c) = LowerSeq(s)
               /\ \A k2 \in Kinds : IsKind(k2, c) = IsKind(k2, s)
(* case-insensitive: acceptance and canonical text ignore the input's case  *)
CaseBlind == \A k \in Kinds :
               /\ IsKind(k, s) = IsKind(k, UpperSeq(s))
               /\ IsKind(k, s) = IsKind(k, LowerSeq(s))
               /\ IsKind(k, s) => CanonKind(k, UpperSeq(s)) = CanonKind(k, s)
(* script and variant are disjoint; so are region and variant; a 4-letter   *)
(* string is never a language (the position automaton relies on all three)  *)
Disjoint == /\ ~(IsScript(s) /\ IsVariant(s))
            /\ ~(IsRegion(s) /\ IsVariant(s))
            /\ ~(IsScript(s) /\ IsLanguage(s))
            /\ ~(IsScript(s) /\ IsRegion(s))
(* raw form: packing is injective on canonical text and unpacks to it       *)
RawRoundTrip == \A k \in Kinds : IsKind(k, s) =>
                   LET c == CanonKind(k, s) IN UnLE(LE(c, WidthOf(k))) = c

(* a subtag never survives an extra space, NUL or separator at either end: the harness asks for these neighbours      *)
(* straight after an accepted subtag (an implementation that remembers the last accepted text must not be fooled)   *)
NeighbourRejected == \A k \in Kinds : IsKind(k, s) =>
    \A x \in {32, 0, 45, 95} : ~IsKind(k, Append(s, x)) /\ ~IsKind(k, <<x>> \o s) /\ ~IsKind(k, s \o <<x, x, x>>)

CaseRec ==
    [k |-> "sub", s |-> s,
     is |-> [i \in 1..4 |-> IsKind(KindSeq[i], s)],
     canon |-> [i \in 1..4 |-> IF IsKind(KindSeq[i], s) THEN CanonKind(KindSeq[i], s) ELSE <<>>],
     raw |-> [i \in 1..4 |-> IF IsKind(KindSeq[i], s)
                              THEN LE(CanonKind(KindSeq[i], s), WidthOf(KindSeq[i])) ELSE <<>>]]
EmitCase == Emit => PrintT("CASE " \o ToJson(CaseRec))
=============================================================================
