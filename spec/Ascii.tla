------------------------------- MODULE Ascii -------------------------------
(***************************************************************************)
(* TLC-only convenience: turn a TLA+ string literal into a byte sequence,  *)
(* so that alphabets and CLDR data can be written / loaded as text.        *)
(* (TLC supports Len and SubSeq on strings.)                               *)
(***************************************************************************)
EXTENDS Naturals, Sequences
Printable == " !?#$%&'()*+,-./0123456789:;<=>?@ABCDEFGHIJKLMNOPQRSTUVWXYZ[?]^_`abcdefghijklmnopqrstuvwxyz{|}~"
(* positions 3 and 61 (the double quote and the backslash) are never used  *)
CharCode(c) == 31 + (CHOOSE i \in (1..95) \ {3, 61} : SubSeq(Printable, i, i) = c)
B(str) == [i \in 1..Len(str) |-> CharCode(SubSeq(str, i, i))]
(* and back: bytes -> text (cheap: one SubSeq per byte)                     *)
CharOf(b) == IF b \in 32..126 THEN SubSeq(Printable, b - 31, b - 31) ELSE "?"
StrOfBytes(bs) == LET f[i \in 0..Len(bs)] == IF i = 0 THEN "" ELSE f[i-1] \o CharOf(bs[i]) IN f[Len(bs)]
=============================================================================
