---------------------------- MODULE OrderProofs ----------------------------
(***************************************************************************)
(* C12 on the specification, for ALL values: the order LessLI of LangId.tla *)
(* (language, then script, region, variants, field by field, an absent      *)
(* subtag first) is a strict total order and CmpLI is consistent with       *)
(* equality.  Proved with TLAPS from a generic development of the           *)
(* lexicographic order over sequences (Lex), instantiated twice: bytes to    *)
(* byte strings (SeqLess) and byte strings to variant lists (LessSeqOfSeq). *)
(* MC_Matches(cmp) / MC_Cmp check the same laws on 324 values squared.      *)
(***************************************************************************)
EXTENDS LangId, NaturalsInduction, TLAPS

(* lexicographic order over sequences, for an arbitrary element order        *)
Lex(less(_, _), a, b) ==
    \/ \E i \in 1..Len(a) :
          /\ i <= Len(b)
          /\ less(a[i], b[i])
          /\ \A j \in 1..(i-1) : a[j] = b[j]
    \/ /\ Len(a) < Len(b)
       /\ \A j \in 1..Len(a) : a[j] = b[j]

StrictTotal(S, less(_, _)) ==
    /\ \A x \in S : ~less(x, x)
    /\ \A x, y, z \in S : less(x, y) /\ less(y, z) => less(x, z)
    /\ \A x, y \in S : x # y => less(x, y) \/ less(y, x)

LEMMA LexIrreflexive ==
    ASSUME NEW S, NEW less(_, _), StrictTotal(S, less), NEW a \in Seq(S)
    PROVE  ~Lex(less, a, a)
  BY DEF Lex, StrictTotal

LEMMA LexTransitive ==
    ASSUME NEW S, NEW less(_, _), StrictTotal(S, less),
           NEW a \in Seq(S), NEW b \in Seq(S), NEW c \in Seq(S), Lex(less, a, b), Lex(less, b, c)
    PROVE  Lex(less, a, c)
<1>1 CASE /\ \E i \in 1..Len(a) : i <= Len(b) /\ less(a[i], b[i]) /\ \A j \in 1..(i-1) : a[j] = b[j]
          /\ \E k \in 1..Len(b) : k <= Len(c) /\ less(b[k], c[k]) /\ \A j \in 1..(k-1) : b[j] = c[j]
  <2>1 PICK i \in 1..Len(a) : i <= Len(b) /\ less(a[i], b[i]) /\ \A j \in 1..(i-1) : a[j] = b[j]
    BY <1>1
  <2>2 PICK k \in 1..Len(b) : k <= Len(c) /\ less(b[k], c[k]) /\ \A j \in 1..(k-1) : b[j] = c[j]
    BY <1>1
  <2>3 CASE i < k
    <3>1 i \in 1..Len(a) /\ i <= Len(c) /\ less(a[i], c[i]) /\ \A j \in 1..(i-1) : a[j] = c[j]
      BY <2>1, <2>2, <2>3
    <3> QED BY <3>1 DEF Lex
  <2>4 CASE i = k
    <3>1 a[i] \in S /\ b[i] \in S /\ c[i] \in S
      BY <2>1, <2>2, <2>4
    <3>2 less(a[i], c[i])
      BY <3>1, <2>1, <2>2, <2>4 DEF StrictTotal
    <3>3 i \in 1..Len(a) /\ i <= Len(c) /\ \A j \in 1..(i-1) : a[j] = c[j]
      BY <2>1, <2>2, <2>4
    <3> QED BY <3>2, <3>3 DEF Lex
  <2>5 CASE k < i
    <3>1 k \in 1..Len(a) /\ k <= Len(c) /\ less(a[k], c[k]) /\ \A j \in 1..(k-1) : a[j] = c[j]
      BY <2>1, <2>2, <2>5
    <3> QED BY <3>1 DEF Lex
  <2> QED BY <2>3, <2>4, <2>5
<1>2 CASE /\ \E i \in 1..Len(a) : i <= Len(b) /\ less(a[i], b[i]) /\ \A j \in 1..(i-1) : a[j] = b[j]
          /\ Len(b) < Len(c) /\ \A j \in 1..Len(b) : b[j] = c[j]
  <2>1 PICK i \in 1..Len(a) : i <= Len(b) /\ less(a[i], b[i]) /\ \A j \in 1..(i-1) : a[j] = b[j]
    BY <1>2
  <2>2 i \in 1..Len(a) /\ i <= Len(c) /\ less(a[i], c[i]) /\ \A j \in 1..(i-1) : a[j] = c[j]
    BY <2>1, <1>2
  <2> QED BY <2>2 DEF Lex
<1>3 CASE /\ Len(a) < Len(b) /\ \A j \in 1..Len(a) : a[j] = b[j]
          /\ \E k \in 1..Len(b) : k <= Len(c) /\ less(b[k], c[k]) /\ \A j \in 1..(k-1) : b[j] = c[j]
  <2>1 PICK k \in 1..Len(b) : k <= Len(c) /\ less(b[k], c[k]) /\ \A j \in 1..(k-1) : b[j] = c[j]
    BY <1>3
  <2>2 CASE k <= Len(a)
    <3>1 k \in 1..Len(a) /\ k <= Len(c) /\ less(a[k], c[k]) /\ \A j \in 1..(k-1) : a[j] = c[j]
      BY <2>1, <2>2, <1>3
    <3> QED BY <3>1 DEF Lex
  <2>3 CASE k > Len(a)
    <3>1 Len(a) < Len(c) /\ \A j \in 1..Len(a) : a[j] = c[j]
      BY <2>1, <2>3, <1>3
    <3> QED BY <3>1 DEF Lex
  <2> QED BY <2>2, <2>3
<1>4 CASE /\ Len(a) < Len(b) /\ \A j \in 1..Len(a) : a[j] = b[j]
          /\ Len(b) < Len(c) /\ \A j \in 1..Len(b) : b[j] = c[j]
  <2>1 Len(a) < Len(c) /\ \A j \in 1..Len(a) : a[j] = c[j]
    BY <1>4
  <2> QED BY <2>1 DEF Lex
<1> QED
  BY <1>1, <1>2, <1>3, <1>4 DEF Lex

LEMMA LexTransitiveAll ==
    ASSUME NEW S, NEW less(_, _), StrictTotal(S, less)
    PROVE  \A a, b, c \in Seq(S) : Lex(less, a, b) /\ Lex(less, b, c) => Lex(less, a, c)
  BY LexTransitive

LEMMA LexTotal ==
    ASSUME NEW S, NEW less(_, _), StrictTotal(S, less),
           NEW a \in Seq(S), NEW b \in Seq(S), a # b
    PROVE  Lex(less, a, b) \/ Lex(less, b, a)
<1> DEFINE Diff(i) == i \in 1..Len(a) /\ i <= Len(b) /\ a[i] # b[i]
<1>1 CASE \E i \in Nat : Diff(i)
  <2>1 PICK n \in Nat : Diff(n)
    BY <1>1
  <2>2 PICK m \in Nat : Diff(m) /\ \A k \in 0..m-1 : ~Diff(k)
    <3> HIDE DEF Diff
    <3> QED BY <2>1, SmallestNatural, Isa
  <2>3 \A j \in 1..(m-1) : a[j] = b[j]
    BY <2>2
  <2>4 a[m] \in S /\ b[m] \in S /\ a[m] # b[m]
    BY <2>2
  <2>5 less(a[m], b[m]) \/ less(b[m], a[m])
    BY <2>4 DEF StrictTotal
  <2>6 m \in 1..Len(a) /\ m <= Len(b) /\ m \in 1..Len(b) /\ m <= Len(a)
    BY <2>2
  <2>7 \A j \in 1..(m-1) : b[j] = a[j]
    BY <2>3
  <2> QED BY <2>3, <2>5, <2>6, <2>7 DEF Lex
<1>2 CASE ~\E i \in Nat : Diff(i)
  <2>1 \A j \in 1..Len(a) : j <= Len(b) => a[j] = b[j]
    BY <1>2
  <2>2 CASE Len(a) = Len(b)
    <3>1 \A j \in 1..Len(a) : a[j] = b[j]
      BY <2>1, <2>2
    <3>2 a = b
      BY <3>1, <2>2
    <3> QED BY <3>2
  <2>3 CASE Len(a) < Len(b)
    BY <2>1, <2>3 DEF Lex
  <2>4 CASE Len(b) < Len(a)
    <3>1 \A j \in 1..Len(b) : b[j] = a[j]
      BY <2>1, <2>4
    <3> QED BY <3>1, <2>4 DEF Lex
  <2> QED BY <2>2, <2>3, <2>4
<1> QED BY <1>1, <1>2

(* ----- the orders of LangId.tla are instances ------------------------------- *)
NatLess(x, y) == x < y
LEMMA NatLessStrictTotal == StrictTotal(Nat, NatLess)
  BY DEF StrictTotal, NatLess

LEMMA SeqLessIsLex ==
    ASSUME NEW a, NEW b
    PROVE  SeqLess(a, b) = Lex(NatLess, a, b)
  BY DEF SeqLess, Lex, NatLess

Str == Seq(Nat)                 \* a byte string (bytes are naturals)

LEMMA SeqLessStrictTotal == StrictTotal(Str, SeqLess)
<1>1 \A x \in Str : ~SeqLess(x, x)
  <2> TAKE x \in Str
  <2> QED BY NatLessStrictTotal, LexIrreflexive, SeqLessIsLex, Isa DEF Str
<1>2 \A x, y, z \in Str : SeqLess(x, y) /\ SeqLess(y, z) => SeqLess(x, z)
  <2> TAKE x, y, z \in Str
  <2> HAVE SeqLess(x, y) /\ SeqLess(y, z)
  <2>1 Lex(NatLess, x, y) /\ Lex(NatLess, y, z)
    BY SeqLessIsLex
  <2>2 \A a, b, c \in Seq(Nat) : Lex(NatLess, a, b) /\ Lex(NatLess, b, c) => Lex(NatLess, a, c)
    BY NatLessStrictTotal, LexTransitiveAll, Isa
  <2>3 Lex(NatLess, x, z)
    BY <2>1, <2>2 DEF Str
  <2> QED BY <2>3, SeqLessIsLex
<1>3 \A x, y \in Str : x # y => SeqLess(x, y) \/ SeqLess(y, x)
  <2> TAKE x, y \in Str
  <2> HAVE x # y
  <2>1 Lex(NatLess, x, y) \/ Lex(NatLess, y, x)
    BY NatLessStrictTotal, LexTotal, Isa DEF Str
  <2> QED BY <2>1, SeqLessIsLex
<1> QED BY <1>1, <1>2, <1>3 DEF StrictTotal

LEMMA LessSeqOfSeqIsLex ==
    ASSUME NEW a, NEW b
    PROVE  LessSeqOfSeq(a, b) = Lex(SeqLess, a, b)
  BY DEF LessSeqOfSeq, Lex

LEMMA LessSeqOfSeqStrictTotal == StrictTotal(Seq(Str), LessSeqOfSeq)
<1>1 \A x \in Seq(Str) : ~LessSeqOfSeq(x, x)
  <2> TAKE x \in Seq(Str)
  <2> QED BY SeqLessStrictTotal, LexIrreflexive, LessSeqOfSeqIsLex, Isa
<1>2 \A x, y, z \in Seq(Str) : LessSeqOfSeq(x, y) /\ LessSeqOfSeq(y, z) => LessSeqOfSeq(x, z)
  <2> TAKE x, y, z \in Seq(Str)
  <2> HAVE LessSeqOfSeq(x, y) /\ LessSeqOfSeq(y, z)
  <2>1 Lex(SeqLess, x, y) /\ Lex(SeqLess, y, z)
    BY LessSeqOfSeqIsLex
  <2>2 \A a, b, c \in Seq(Str) : Lex(SeqLess, a, b) /\ Lex(SeqLess, b, c) => Lex(SeqLess, a, c)
    BY SeqLessStrictTotal, LexTransitiveAll, Isa
  <2>3 Lex(SeqLess, x, z)
    BY <2>1, <2>2
  <2> QED BY <2>3, LessSeqOfSeqIsLex
<1>3 \A x, y \in Seq(Str) : x # y => LessSeqOfSeq(x, y) \/ LessSeqOfSeq(y, x)
  <2> TAKE x, y \in Seq(Str)
  <2> HAVE x # y
  <2>1 Lex(SeqLess, x, y) \/ Lex(SeqLess, y, x)
    BY SeqLessStrictTotal, LexTotal, Isa
  <2> QED BY <2>1, LessSeqOfSeqIsLex
<1> QED BY <1>1, <1>2, <1>3 DEF StrictTotal

(* an absent subtag (`e`) sorts first, otherwise the text order                  *)
LEMMA LessOptStrictTotal ==
    ASSUME NEW e \in Str
    PROVE  /\ \A x \in Str : ~LessOpt(x, x, e)
           /\ \A x, y, z \in Str : LessOpt(x, y, e) /\ LessOpt(y, z, e) => LessOpt(x, z, e)
           /\ \A x, y \in Str : x # y => LessOpt(x, y, e) \/ LessOpt(y, x, e)
           /\ \A x \in Str : x # e => LessOpt(e, x, e)
  BY SeqLessStrictTotal DEF StrictTotal, LessOpt

(* ----- C12: the order on language identifiers is a strict total order --------- *)
LIV == [lang : Str, script : Str, region : Str, variants : Seq(Str)]

THEOREM LessLIIrreflexive ==
    ASSUME NEW a \in LIV
    PROVE  ~LessLI(a, a)
  BY LessSeqOfSeqStrictTotal DEF LessLI, LessOpt, LIV, StrictTotal

THEOREM LessLITotal ==
    ASSUME NEW a \in LIV, NEW b \in LIV, a # b
    PROVE  LessLI(a, b) \/ LessLI(b, a)
<1>1 Und \in Str /\ <<>> \in Str
  BY DEF Und, Str
<1>2 a.lang # b.lang \/ a.script # b.script \/ a.region # b.region \/ a.variants # b.variants
  BY DEF LIV
<1>3 /\ a.lang # b.lang => LessOpt(a.lang, b.lang, Und) \/ LessOpt(b.lang, a.lang, Und)
     /\ a.script # b.script => LessOpt(a.script, b.script, <<>>) \/ LessOpt(b.script, a.script, <<>>)
     /\ a.region # b.region => LessOpt(a.region, b.region, <<>>) \/ LessOpt(b.region, a.region, <<>>)
  BY <1>1, LessOptStrictTotal DEF LIV
<1>4 a.variants # b.variants => LessSeqOfSeq(a.variants, b.variants) \/ LessSeqOfSeq(b.variants, a.variants)
  BY LessSeqOfSeqStrictTotal DEF StrictTotal, LIV
<1> QED
  BY <1>2, <1>3, <1>4 DEF LessLI

THEOREM LessLITransitive ==
    ASSUME NEW a \in LIV, NEW b \in LIV, NEW c \in LIV, LessLI(a, b), LessLI(b, c)
    PROVE  LessLI(a, c)
<1>1 Und \in Str /\ <<>> \in Str
  BY DEF Und, Str
<1>2 /\ \A x, y, z \in Str : LessOpt(x, y, Und) /\ LessOpt(y, z, Und) => LessOpt(x, z, Und)
     /\ \A x, y, z \in Str : LessOpt(x, y, <<>>) /\ LessOpt(y, z, <<>>) => LessOpt(x, z, <<>>)
     /\ \A x \in Str : ~LessOpt(x, x, Und) /\ ~LessOpt(x, x, <<>>)
  BY <1>1, LessOptStrictTotal
<1>3 /\ \A x, y, z \in Seq(Str) : LessSeqOfSeq(x, y) /\ LessSeqOfSeq(y, z) => LessSeqOfSeq(x, z)
     /\ \A x \in Seq(Str) : ~LessSeqOfSeq(x, x)
  BY LessSeqOfSeqStrictTotal DEF StrictTotal
<1>4 /\ a.lang \in Str /\ b.lang \in Str /\ c.lang \in Str
     /\ a.script \in Str /\ b.script \in Str /\ c.script \in Str
     /\ a.region \in Str /\ b.region \in Str /\ c.region \in Str
     /\ a.variants \in Seq(Str) /\ b.variants \in Seq(Str) /\ c.variants \in Seq(Str)
  BY DEF LIV
<1> QED
  BY <1>2, <1>3, <1>4 DEF LessLI

(* consistent with equality: exactly one of a < b, a = b, b < a                   *)
THEOREM CmpLIConsistent ==
    ASSUME NEW a \in LIV, NEW b \in LIV
    PROVE  /\ CmpLI(a, b) = "eq" <=> a = b
           /\ CmpLI(a, b) = "lt" <=> CmpLI(b, a) = "gt"
<1>1 a # b => LessLI(a, b) \/ LessLI(b, a)
  BY LessLITotal
<1>2 ~(LessLI(a, b) /\ LessLI(b, a))
  BY LessLITransitive, LessLIIrreflexive
<1>3 ~LessLI(a, a) /\ ~LessLI(b, b)
  BY LessLIIrreflexive
<1> QED
  BY <1>1, <1>2, <1>3 DEF CmpLI
=============================================================================
