------------------------------ MODULE MC_Dict ------------------------------
(***************************************************************************)
(* Parsing over a SOURCE-LITERAL DICTIONARY.  The bounded alphabets of     *)
(* MC_LangId / MC_Locale are boundary-complete per production, but no      *)
(* class-based alphabet contains a specific word that the code might       *)
(* treat specially ("posix", "root", an alias table, a legacy code).  The  *)
(* orchestrator therefore collects every short alphanumeric word that      *)
(* occurs as a string, byte-string, character or (little/big-endian        *)
(* packed) integer literal in the library's sources and passes it in       *)
(* through VERIF_DICT; here each word -- as written, lower-cased and       *)
(* upper-cased -- joins a small skeleton vocabulary, and every token       *)
(* sequence up to Depth is a case for both parsers, exactly as in          *)
(* MC_LangId.  The specification has no special words (UTS #35 syntax has  *)
(* none besides und / true), so any special treatment shows as a           *)
(* disagreement.                                                            *)
(***************************************************************************)
EXTENDS Locale, Alphabets, TLC, Json, IOUtils

CONSTANTS Depth, FullDepth

VARIABLE toks

DictRaw == JsonDeserialize(IOEnv.VERIF_DICT)
DictWords == { DictRaw[n] : n \in 1..Len(DictRaw) }
Skeleton == { B("en"), B("Latn"), B("US"), B("valencia"), B("u"), B("t"), B("x"), B("ca"), B("h0"), B("foo") }
Alphabet == Skeleton \cup DictWords \cup { LowerSeq(w) : w \in DictWords } \cup { UpperSeq(w) : w \in DictWords }

Live(ts) == ParseLocTokens(ts).zone # "reject"

Init == toks \in { <<w>> : w \in Alphabet }
Next == /\ Len(toks) < Depth
        /\ Len(toks) < FullDepth \/ Live(toks)
        /\ \E w \in Alphabet : toks' = Append(toks, w)
Spec == Init /\ [][Next]_toks

RLI  == ParseLITokens(toks)
RLoc == ParseLocTokens(toks)

(* the specification treats a dictionary word like any other token of its shape *)
ValueOK == /\ RLI.ok => LIValueOK(RLI.val)
           /\ RLoc.zone # "reject" => LocValueOK(RLoc.val)
RoundTrip == RLoc.zone # "reject" =>
                LET s == SerLoc(RLoc.val)  r == ParseLoc(s) IN r.val = RLoc.val /\ Len(s) <= Len(Join(toks))
LocaleAgrees == RLI.ok => RLoc.zone = "accept" /\ RLoc.val = LocOfLI(RLI.val)

CaseRec ==
    [k |-> "parse", toks |-> toks,
     li |-> [ok |-> RLI.ok, err |-> RLI.err, val |-> RLI.val, ser |-> SerLI(RLI.val)],
     loc |-> [zone |-> RLoc.zone, why |-> RLoc.why, val |-> RLoc.val, ser |-> SerLoc(RLoc.val)]]
EmitCase == PrintT("CASE " \o ToJson(CaseRec))
=============================================================================
