----------------------------- MODULE ImplProofs -----------------------------
(***************************************************************************)
(* C01, "never loops", on the small-step model of the parser AS            *)
(* IMPLEMENTED (ImplParser.tla), for EVERY input: a ranking function       *)
(* strictly decreases on every step of every loop of the parser, so a run  *)
(* on n subtags takes at most 4n+7 steps.  MC_Impl checks the same action  *)
(* property on token sequences up to a depth bound; here it is proved with *)
(* TLAPS for token sequences of any length and content.                    *)
(***************************************************************************)
EXTENDS ImplParser, TLAPS

Pcs == {"lang", "li", "ext", "u", "t", "tl", "x", "done", "err"}
TypeInv == /\ Len(toks) \in Nat /\ Len(toks) >= 1
           /\ k \in Nat /\ 1 <= k /\ k <= Len(toks) + 1
           /\ pc \in Pcs
           /\ pc = "lang" => k = 1

StartState == pc = "lang" /\ k = 1 /\ Len(toks) \in Nat /\ Len(toks) >= 1

THEOREM InitInv == StartState => TypeInv
  BY DEF StartState, TypeInv, Pcs

THEOREM RankIsNat == TypeInv => Rank \in Nat
  BY DEF TypeInv, Rank, PcWeight, Terminated, Pcs

THEOREM StepDecreases == TypeInv /\ Step => Rank' < Rank /\ TypeInv'
<1> SUFFICES ASSUME TypeInv, Step PROVE Rank' < Rank /\ TypeInv'
  OBVIOUS
<1> USE DEF TypeInv, Pcs, Rank, PcWeight, Terminated, AtEnd, Peek
<1>1 CASE Lang  BY <1>1 DEF Lang
<1>2 CASE Li    BY <1>2 DEF Li
<1>3 CASE Ext   BY <1>3 DEF Ext
<1>4 CASE U     BY <1>4 DEF U
<1>5 CASE T     BY <1>5 DEF T
<1>6 CASE Tl    BY <1>6 DEF Tl
<1>7 CASE X     BY <1>7 DEF X
<1> QED BY <1>1, <1>2, <1>3, <1>4, <1>5, <1>6, <1>7 DEF Step

(* no step is possible from a terminated state, and from any other state one is *)
THEOREM TerminatedIsFinal == TypeInv /\ Terminated => ~Step
  BY DEF TypeInv, Terminated, Step, Lang, Li, Ext, U, T, Tl, X
=============================================================================
