------------------------------- MODULE Locale -------------------------------
(***************************************************************************)
(* Unicode locale identifiers: language identifier + -t-, -u-, -x- (and    *)
(* "other") extensions.                                                     *)
(*                                                                         *)
(* value == [id, attrs, kw, tlang, tf, priv]                               *)
(*   id     a LangId value                                                 *)
(*   attrs  strictly increasing sequence of attributes                     *)
(*   kw     sequence of <<key, types>> strictly increasing by key          *)
(*   tlang  <<>> when absent, else << LangId value >>                      *)
(*   tf     sequence of <<tkey, tvalues>> strictly increasing by key       *)
(*   priv   weakly increasing sequence (a sorted bag) of private tags      *)
(*                                                                         *)
(* The recogniser is a small-step token automaton.  Besides the value it   *)
(* computes the ZONE the input falls in, which is exactly the freedom      *)
(* property C03 leaves to an implementation:                                *)
(*   accept  well-formed: must parse, to exactly `val`                     *)
(*   either  ill-formed only through emptiness (an empty subtag after the   *)
(*           first one, a singleton with an empty body, a tkey without      *)
(*           tvalue): Err, or Ok with `val` (= the emptiness removed)       *)
(*   other   contains a well-formed other-singleton extension: Err, or Ok   *)
(*           with id/u/t/x equal to `val`                                   *)
(*   free    duplicate keyword keys or duplicate tfield keys: outside C03   *)
(*   reject  anything else: must be Err                                     *)
(***************************************************************************)
EXTENDS LangId

LocDefault == [id |-> LIDefault, attrs |-> <<>>, kw |-> <<>>, tlang |-> <<>>,
               tf |-> <<>>, priv |-> <<>>]

(* ----- automaton state -------------------------------------------------- *)
(* kw / tf are collected in input order as <<key, values>>; the value is    *)
(* assembled by LocVal at the end.                                          *)
LocStart0 ==
    [ph |-> "l1", id |-> LIDefault, attrs |-> <<>>, kw |-> <<>>, tlang |-> <<>>,
     tlph |-> "l1", tf |-> <<>>, priv |-> <<>>, others |-> {},
     seenU |-> FALSE, seenT |-> FALSE, seenX |-> FALSE,
     emptyTok |-> FALSE, emptyBody |-> FALSE, emptyTf |-> FALSE, why |-> ""]

Dead(s, why) == [s EXCEPT !.ph = "dead", !.why = why]

(* phases in which a singleton has just been read and nothing of its body   *)
BodyStartPhases == {"u0", "t0", "x0", "o0"}

(* closing the body we are in, when a new singleton (or the end) arrives    *)
CloseBody(s) ==
    [s EXCEPT !.emptyBody = @ \/ (s.ph \in BodyStartPhases),
              !.emptyTf = @ \/ (s.ph = "tk")]

Dispatch(s0, t) ==
    LET s == CloseBody(s0)
        c == LowerB(t[1])
    IN IF c = 117 THEN                                     \* 'u'
            IF s.seenU THEN Dead(s, "repeated-singleton")
            ELSE [s EXCEPT !.ph = "u0", !.seenU = TRUE]
       ELSE IF c = 116 THEN                                \* 't'
            IF s.seenT THEN Dead(s, "repeated-singleton")
            ELSE [s EXCEPT !.ph = "t0", !.seenT = TRUE]
       ELSE IF c = 120 THEN [s EXCEPT !.ph = "x0", !.seenX = TRUE]   \* 'x'
       ELSE IF c \in s.others THEN Dead(s, "repeated-singleton")
       ELSE [s EXCEPT !.ph = "o0", !.others = @ \cup {c}]

DropTrue(vals) == SelectSeq(vals, LAMBDA x : x # TrueWord)

AddKey(pairs, k) == Append(pairs, <<k, <<>>>>)
AddVal(pairs, v) == [pairs EXCEPT ![Len(pairs)] = <<@[1], Append(@[2], v)>>]

(* one token in the language-identifier part of the -t- extension          *)
TlangTake(s, t) ==
    LET r == LITake([ph |-> s.tlph, acc |-> s.tlang[1]], t)
    IN [s EXCEPT !.tlang = <<r.acc>>, !.tlph = r.ph]

LocStep(s, t) ==
    IF s.ph = "dead" THEN s
    ELSE IF s.ph \in {"x0", "x1"} THEN
        (* everything after -x- is private use, to the end of the input     *)
        IF IsPriv(t) THEN [s EXCEPT !.ph = "x1", !.priv = Append(@, LowerSeq(t))]
        ELSE IF t = <<>> THEN [s EXCEPT !.emptyTok = TRUE]
        ELSE Dead(s, "bad-private-subtag")
    ELSE IF t = <<>> THEN [s EXCEPT !.emptyTok = TRUE]
    ELSE IF s.ph \in {"l1", "l2", "l3"} /\ LIFits(s.ph, t) THEN
        LET r == LITake([ph |-> s.ph, acc |-> s.id], t)
        IN [s EXCEPT !.ph = r.ph, !.id = r.acc]
    ELSE IF s.ph \in {"l1", "l2", "l3", "ext"} THEN
        IF IsSingleton(t) THEN Dispatch(s, t) ELSE Dead(s, "bad-subtag-after-langid")
    ELSE IF s.ph \in {"u0", "ua"} THEN
        IF IsAttr(t) THEN [s EXCEPT !.ph = "ua", !.attrs = Append(@, LowerSeq(t))]
        ELSE IF IsUKey(t) THEN [s EXCEPT !.ph = "uk", !.kw = AddKey(@, LowerSeq(t))]
        ELSE IF IsSingleton(t) THEN Dispatch(s, t)
        ELSE Dead(s, "bad-subtag-in-u")
    ELSE IF s.ph = "uk" THEN
        IF IsUType(t) THEN [s EXCEPT !.kw = AddVal(@, LowerSeq(t))]
        ELSE IF IsUKey(t) THEN [s EXCEPT !.kw = AddKey(@, LowerSeq(t))]
        ELSE IF IsSingleton(t) THEN Dispatch(s, t)
        ELSE Dead(s, "bad-subtag-in-keyword")
    ELSE IF s.ph = "t0" THEN
        IF IsLanguage(t) THEN
            [s EXCEPT !.ph = "tl", !.tlph = "l1",
                      !.tlang = << [LIDefault EXCEPT !.lang = CanonLanguage(t)] >>]
        ELSE IF IsTKey(t) THEN [s EXCEPT !.ph = "tk", !.tf = AddKey(@, LowerSeq(t))]
        ELSE IF IsSingleton(t) THEN Dispatch(s, t)
        ELSE Dead(s, "bad-subtag-in-t")
    ELSE IF s.ph = "tl" THEN
        IF LIFits(s.tlph, t) THEN TlangTake(s, t)
        ELSE IF IsTKey(t) THEN [s EXCEPT !.ph = "tk", !.tf = AddKey(@, LowerSeq(t))]
        ELSE IF IsSingleton(t) THEN Dispatch(s, t)
        ELSE Dead(s, "bad-subtag-after-tlang")
    ELSE IF s.ph \in {"tk", "tv"} THEN
        IF IsTValue(t) THEN [s EXCEPT !.ph = "tv", !.tf = AddVal(@, LowerSeq(t))]
        ELSE IF IsTKey(t) THEN
            [s EXCEPT !.ph = "tk", !.tf = AddKey(@, LowerSeq(t)),
                      !.emptyTf = @ \/ (s.ph = "tk")]
        ELSE IF IsSingleton(t) THEN Dispatch(s, t)
        ELSE Dead(s, "bad-subtag-in-tfield")
    ELSE IF s.ph \in {"o0", "o1"} THEN
        IF IsOtherSub(t) THEN [s EXCEPT !.ph = "o1"]
        ELSE IF IsSingleton(t) THEN Dispatch(s, t)
        ELSE Dead(s, "bad-subtag-in-other")
    ELSE Dead(s, "no-such-phase")

LocFinish(s) == IF s.ph = "dead" THEN s ELSE CloseBody(s)

(* ----- value assembly ---------------------------------------------------- *)
Keys(pairs) == [i \in 1..Len(pairs) |-> pairs[i][1]]
HasDupKeys(pairs) == \E i, j \in 1..Len(pairs) : i < j /\ pairs[i][1] = pairs[j][1]
LastFor(pairs, k) ==
    LET i == CHOOSE i \in 1..Len(pairs) :
                 pairs[i][1] = k /\ \A j \in (i+1)..Len(pairs) : pairs[j][1] # k
    IN pairs[i][2]
(* ordered map: keys strictly increasing, a later duplicate replaces        *)
MapOf(pairs) ==
    LET ks == SortSet(SeqRange(Keys(pairs)))
    IN [i \in 1..Len(ks) |-> <<ks[i], DropTrue(LastFor(pairs, ks[i]))>>]

LocVal(s) ==
    [id    |-> LINorm(s.id),
     attrs |-> SortDedup(s.attrs),
     kw    |-> MapOf(s.kw),
     tlang |-> IF s.tlang = <<>> THEN <<>> ELSE << LINorm(s.tlang[1]) >>,
     tf    |-> MapOf(s.tf),
     priv  |-> SortBag(s.priv)]

ZoneOf(s) ==
    IF s.ph = "dead" THEN "reject"
    ELSE IF HasDupKeys(s.kw) \/ HasDupKeys(s.tf) THEN "free"
    ELSE IF s.others # {} THEN "other"
    ELSE IF s.emptyTok \/ s.emptyBody \/ s.emptyTf THEN "either"
    ELSE "accept"

LocResult(s0) ==
    LET s == LocFinish(s0)
    IN [zone |-> ZoneOf(s),
        val  |-> IF s.ph = "dead" THEN LocDefault ELSE LocVal(s),
        why  |-> s.why,
        (* ill-formed only because a tkey has no tvalue: the one kind of     *)
        (* emptiness the canonical output itself may contain (see C04)       *)
        onlyEmptyTf |-> s.ph # "dead" /\ ~s.emptyTok /\ ~s.emptyBody]

(* run from a given start state over the remaining tokens                   *)
LocRun(s, toks) == FoldLeft(LocStep, s, toks)

ParseLocTokens(toks) ==
    IF ~IsLanguage(toks[1])
      THEN LocResult(Dead(LocStart0, "bad-language"))
      ELSE LocResult(LocRun([LocStart0 EXCEPT !.id.lang = CanonLanguage(toks[1])], Tail(toks)))
ParseLoc(bytes) == ParseLocTokens(Split(bytes))

(* ExtensionsMap::from_bytes: the text after the language identifier,      *)
(* with or without its leading separator.                                   *)
(* The serialised map starts with '-', so a leading empty token is normal.  *)
ParseExtTokens(toks) ==
    LocResult(LocRun([LocStart0 EXCEPT !.ph = "ext"],
                     IF toks # <<>> /\ toks[1] = <<>> THEN Tail(toks) ELSE toks))
ParseExt(bytes) == ParseExtTokens(Split(bytes))

(* ----- serialisation: id, then t, u, x ---------------------------------- *)
PairToks(pairs) == Flatten([i \in 1..Len(pairs) |-> <<pairs[i][1]>> \o pairs[i][2]])
TPart(v) == IF v.tlang = <<>> /\ v.tf = <<>> THEN <<>>
            ELSE << <<116>> >> \o (IF v.tlang = <<>> THEN <<>> ELSE SerLITokens(v.tlang[1]))
                 \o PairToks(v.tf)
UPart(v) == IF v.attrs = <<>> /\ v.kw = <<>> THEN <<>>
            ELSE << <<117>> >> \o v.attrs \o PairToks(v.kw)
XPart(v) == IF v.priv = <<>> THEN <<>> ELSE << <<120>> >> \o v.priv
ExtToks(v) == TPart(v) \o UPart(v) \o XPart(v)
SerLocTokens(v) == SerLITokens(v.id) \o ExtToks(v)
SerLoc(v) == Join(SerLocTokens(v))
(* Display of the extension map alone: every part carries its own '-'      *)
SerExt(v) == IF ExtToks(v) = <<>> THEN <<>> ELSE <<45>> \o Join(ExtToks(v))

ExtIsEmpty(v) == ExtToks(v) = <<>>

(* ----- well-formedness of values and of canonical text ------------------ *)
PairsOK(pairs, IsK(_), IsV(_)) ==
    /\ \A i \in 1..Len(pairs) :
          /\ IsK(pairs[i][1]) /\ pairs[i][1] = LowerSeq(pairs[i][1])
          /\ \A j \in 1..Len(pairs[i][2]) :
                LET x == pairs[i][2][j] IN IsV(x) /\ x = LowerSeq(x) /\ x # TrueWord
    /\ StrictlySorted(Keys(pairs))

LocValueOK(v) ==
    /\ LIValueOK(v.id)
    /\ \A i \in 1..Len(v.attrs) : IsAttr(v.attrs[i]) /\ v.attrs[i] = LowerSeq(v.attrs[i])
    /\ StrictlySorted(v.attrs)
    /\ PairsOK(v.kw, IsUKey, IsUType)
    /\ v.tlang = <<>> \/ LIValueOK(v.tlang[1])
    /\ PairsOK(v.tf, IsTKey, IsTValue)
    /\ \A i \in 1..Len(v.priv) : IsPriv(v.priv[i]) /\ v.priv[i] = LowerSeq(v.priv[i])
    /\ WeaklySorted(v.priv)

(* Strict recogniser for OUTPUT text (C04): well-formed, nothing an        *)
(* implementation may take liberties with, and a fixpoint of the           *)
(* canonicaliser.  A tkey without tvalue is tolerated on output (it is      *)
(* what `k0-true` canonicalises to).                                        *)
StrictCanonicalLoc(bytes) ==
    LET r == ParseLoc(bytes)
    IN /\ r.zone = "accept" \/ (r.zone = "either" /\ r.onlyEmptyTf)
       /\ SerLoc(r.val) = bytes
StrictCanonicalLI(bytes) ==
    LET r == ParseLI(bytes) IN r.ok /\ SerLI(r.val) = bytes

(* ----- matching ---------------------------------------------------------- *)
MatchesLoc(a, b, ra, rb) ==
    IF a.priv # <<>> \/ b.priv # <<>> THEN FALSE ELSE MatchesLI(a.id, b.id, ra, rb)

LocOfLI(v) == [LocDefault EXCEPT !.id = v]
=============================================================================
