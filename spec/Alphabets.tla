----------------------------- MODULE Alphabets -----------------------------
(***************************************************************************)
(* Boundary-class token and byte alphabets for the bounded models.  A      *)
(* token never contains a separator.  Every production's length boundary   *)
(* (one below, first, last, one above) and character-class boundary is     *)
(* represented, in both letter cases.                                      *)
(***************************************************************************)
EXTENDS Ascii

Lowers == { B(""), B("a"), B("en"), B("abc"), B("latn"), B("abcde"), B("abcdef"),
            B("abcdefg"), B("valencia"), B("abcdefghi") }
Uppers == { B("US"), B("ABC"), B("LATN"), B("ABCDE"), B("VALENCIA") }
Mixed  == { B("eN"), B("lAtN"), B("uS"), B("VaLeNcIa"), B("Und"), B("TRUE") }
Digits == { B("1"), B("12"), B("419"), B("1994"), B("12345"), B("12345678"), B("123456789") }
DigitFirst == { B("1a"), B("1ab"), B("1abc"), B("1ABC"), B("1abcd"), B("1abcdefg"), B("1abcdefgh") }
AlphaFirst == { B("a1"), B("h0"), B("a12"), B("a123"), B("ab12c"), B("abcdefg1"), B("abcdefgh1") }
Words  == { B("und"), B("UND"), B("true"), B("root"), B("u"), B("t"), B("x"), B("U"), B("z") }
Odd    == { B("e."), B("en*"), B("e n"), <<101, 0>>, <<128, 128>>, <<195, 129, 195, 129>>,
            <<255>>, B("en.US"), B("1.ab"), B("@@"), B("[["), B("``"), B("{{"), B("//"),
            B("::"), B("$"), B("en "), <<32, 101, 110>>, <<101, 110, 10>>, <<9, 85, 83>>, B("US,"), B("abcde^") }

(* language-identifier models: everything                                  *)
TokensLI == Lowers \cup Uppers \cup Mixed \cup Digits \cup DigitFirst \cup AlphaFirst
            \cup Words \cup Odd

(* a reduced set for deeper enumeration                                    *)
TokensLISmall == { B("en"), B("und"), B("abcde"), B("Latn"), B("US"), B("419"), B("valencia"),
                   B("1abc"), B("VALENCIA"), B("abcd1"), B(""), B("a"), B("abcdefghi"), B("e.") }

(* locale models: the extension vocabulary                                  *)
TokensLoc == { B(""), B("en"), B("und"), B("Latn"), B("US"), B("valencia"), B("1abc"),
               B("u"), B("t"), B("x"), B("a"), B("U"), B("foo"), B("bar"), B("true"), B("ca"),
               B("hc"), B("h0"), B("k0"), B("1a"), B("toolongxx"), B("$"), B("a1b"), B("12"), B("True"), B("zz"), B("fo.o"), B("ab+"), B("foo,") }

(* deep enumeration: the bare minimum to build every extension shape        *)
TokensLocTiny == { B("en"), B("u"), B("t"), B("x"), B("foo"), B("ca"), B("h0") }

TokensLocSmall == { B(""), B("en"), B("Latn"), B("US"), B("valencia"), B("u"), B("t"), B("x"),
                    B("a"), B("foo"), B("true"), B("TRUE"), B("ca"), B("h0"), B("k0"), B("toolongxx"), B("fo.o") }
=============================================================================
