------------------------------ MODULE Subtags ------------------------------
(***************************************************************************)
(* The subtag productions of UTS #35 (unicode_language_subtag, _script_,   *)
(* _region_, _variant_, the -u-, -t-, -x- and other-extension pieces) as   *)
(* predicates on byte strings, and their canonical case foldings.          *)
(***************************************************************************)
EXTENDS Bytes

IsLanguage(t) == Len(t) \in {2,3,5,6,7,8} /\ AllAlpha(t)
IsScript(t)   == Len(t) = 4 /\ AllAlpha(t)
IsRegion(t)   == (Len(t) = 2 /\ AllAlpha(t)) \/ (Len(t) = 3 /\ AllDigit(t))
IsVariant(t)  == \/ Len(t) \in 5..8 /\ AllAlnum(t)
                 \/ Len(t) = 4 /\ IsDigit(t[1]) /\ AllAlnum(t)

IsSingleton(t) == Len(t) = 1 /\ IsAlnum(t[1])
IsUKey(t)   == Len(t) = 2 /\ IsAlnum(t[1]) /\ IsAlpha(t[2])
IsUType(t)  == Len(t) \in 3..8 /\ AllAlnum(t)
IsAttr(t)   == Len(t) \in 3..8 /\ AllAlnum(t)
IsTKey(t)   == Len(t) = 2 /\ IsAlpha(t[1]) /\ IsDigit(t[2])
IsTValue(t) == Len(t) \in 3..8 /\ AllAlnum(t)
IsPriv(t)   == Len(t) \in 1..8 /\ AllAlnum(t)
IsOtherSub(t) == Len(t) \in 2..8 /\ AllAlnum(t)

CanonLanguage(t) == LowerSeq(t)
CanonScript(t)   == TitleSeq(t)
CanonRegion(t)   == UpperSeq(t)
CanonVariant(t)  == LowerSeq(t)

Und  == <<117, 110, 100>>         \* "und": the empty language
TrueWord == <<116, 114, 117, 101>> \* "true": the implied keyword / field value

IsEmptyLanguage(l) == l = Und

(* The four "kinds" share one interface, used by models and traces alike.  *)
Kinds == {"language", "script", "region", "variant"}
IsKind(k, t) ==
    CASE k = "language" -> IsLanguage(t)
      [] k = "script"   -> IsScript(t)
      [] k = "region"   -> IsRegion(t)
      [] k = "variant"  -> IsVariant(t)
CanonKind(k, t) ==
    CASE k = "language" -> CanonLanguage(t)
      [] k = "script"   -> CanonScript(t)
      [] k = "region"   -> CanonRegion(t)
      [] k = "variant"  -> CanonVariant(t)

(* Little-endian zero-padded packing used by the integer ("raw") forms.    *)
(* TLC integers are 32 bit, so a u64 travels as its 8 bytes.               *)
LE(t, n) == [i \in 1..n |-> IF i <= Len(t) THEN t[i] ELSE 0]
UnLE(p) == LET k == Cardinality({ i \in 1..Len(p) : p[i] # 0 }) IN SubSeq(p, 1, k)
WidthOf(k) == IF k \in {"language", "variant"} THEN 8 ELSE 4
=============================================================================
