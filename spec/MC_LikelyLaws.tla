--------------------------- MODULE MC_LikelyLaws ---------------------------
(***************************************************************************)
(* The algebraic laws of maximize / minimize (C07, C08) hold for EVERY     *)
(* table over a small subtag universe, so they do not depend on CLDR 44.   *)
(* A state is a table; the invariants quantify over all inputs, including  *)
(* subtags that occur in no key.                                           *)
(***************************************************************************)
EXTENDS Likely, TLC

CONSTANTS Universe,   \* "1x2x1" | "1x2x2" | "2x2x1"
          Shape       \* "consistent": a value agrees with its key (CLDR-shaped); "any": arbitrary full triples

VARIABLES T, ph

Ls == IF Universe = "2x2x1" THEN {"a", "b"} ELSE {"a"}
Ss == {"P", "Q"}
Rs == IF Universe = "1x2x2" THEN {"X", "Y"} ELSE {"X"}

Full == { <<l, s, r>> : l \in Ls, s \in Ss, r \in Rs }
Keys == { <<l, None, None>> : l \in Ls } \cup { <<l, s, None>> : l \in Ls, s \in Ss }
        \cup { <<l, None, r>> : l \in Ls, r \in Rs }
        \cup { <<UndL, s, None>> : s \in Ss } \cup { <<UndL, s, r>> : s \in Ss, r \in Rs }
        \cup { <<UndL, None, r>> : r \in Rs } \cup { <<UndL, None, None>> }

Consistent(k, v) == (k[1] = UndL \/ k[1] = v[1]) /\ (k[2] = None \/ k[2] = v[2]) /\ (k[3] = None \/ k[3] = v[3])
ValsFor(k) == IF Shape = "any" THEN Full ELSE { v \in Full : Consistent(k, v) }
Absent == <<"-", "-", "-">>

(* two phases so that TLC's workers share the enumeration: the initial      *)
(* states fix the und-keys, one step then fixes the language keys            *)
KeysA == { k \in Keys : k[1] = UndL }
KeysB == Keys \ KeysA
Assign(K) == { f \in [K -> Full \cup {Absent}] : \A k \in K : f[k] = Absent \/ f[k] \in ValsFor(k) }
TableOf(K, f) == [k \in { k \in K : f[k] # Absent } |-> f[k]]
Merge(t1, t2) == [k \in (DOMAIN t1) \cup (DOMAIN t2) |-> IF k \in DOMAIN t1 THEN t1[k] ELSE t2[k]]

Init == ph = 0 /\ \E f \in Assign(KeysA) : T = TableOf(KeysA, f)
Next == /\ ph = 0 /\ ph' = 1
        /\ \E g \in Assign(KeysB) : T' = Merge(T, TableOf(KeysB, g))
Spec == Init /\ [][Next]_<<T, ph>>

(* inputs: every known subtag, absent, and one unknown representative each  *)
InL == Ls \cup {UndL, "zz"}
InS == Ss \cup {None, "Zzzz"}
InR == Rs \cup {None, "ZZ"}

(* the laws hold under every subset of the optional fallbacks (proved for all  *)
(* of them with TLAPS, LikelyProofs.tla); TLC checks a spread of six          *)
LawCfgs == IF Universe = "1x2x1"
           THEN {FbNone, FbAll, {"uscript", "uregion", "bare"}, {"bare"}, {"uscript"}, {"bareAny", "ulangregion"}}
           ELSE {FbNone, FbAll}                                       \* the larger universes: half a million tables each
C07 == ph = 1 => \A l \in InL, s \in InS, r \in InR, fb \in LawCfgs : LawsMax(T, l, s, r, fb)
C08 == ph = 1 => \A l \in InL, s \in InS, r \in InR, fb \in LawCfgs : LawsMin(T, l, s, r, fb)
(* (with the optional bare-"und" fallback an implementation could lengthen  *)
(* "und" to "a-Q"; the law is stated for the cascade the property fixes)     *)
C08Longer == ph = 1 => \A l \in InL, s \in InS, r \in InR : NeverLonger(T, l, s, r, FbNone)

(* every key maximizes to its value when values agree with their keys (C06) *)
KeysMaximizeToValues ==
    (ph = 1 /\ Shape = "consistent") =>
        \A k \in DOMAIN T : k # <<UndL, None, None>> => Maximize(T, k[1], k[2], k[3]) = <<TRUE, T[k]>>

(* data independence: a subtag that occurs in no key is only ever copied    *)
Rename(x) == IF x = "zz" THEN "yy" ELSE IF x = "Zzzz" THEN "Yyyy" ELSE IF x = "ZZ" THEN "YY" ELSE x
RenT(t) == <<Rename(t[1]), Rename(t[2]), Rename(t[3])>>
DataIndependent ==
    \A l \in InL, s \in InS, r \in InR :
        LET m == Maximize(T, l, s, r)  m2 == Maximize(T, Rename(l), Rename(s), Rename(r)) IN
        m2 = <<m[1], RenT(m[2])>>
=============================================================================
