---------------------------- MODULE ObjectLikely ----------------------------
(***************************************************************************)
(* The object state machine extended with the two likely-subtags actions   *)
(* (maximize / minimize on the language identifier), over the real CLDR    *)
(* table.  The object holds bytes, the table holds text atoms; this module *)
(* is the bridge.  `fb` selects the optional UTS #35 fallbacks (Likely).   *)
(***************************************************************************)
EXTENDS LocaleObject, Cldr, Ascii

StrOf(bs) == StrOfBytes(bs)
OptStr(bs) == IF bs = <<>> THEN None ELSE StrOf(bs)
OptB(str) == IF str = None THEN <<>> ELSE B(str)

LikelyOnBytes(F(_, _, _, _, _), fb, l, s, r) ==
    LET x == F(T, StrOf(l), OptStr(s), OptStr(r), fb) IN
    <<x[1], IF x[1] THEN <<B(x[2][1]), OptB(x[2][2]), OptB(x[2][3])>> ELSE <<l, s, r>> >>
MaxB(fb, l, s, r) == LikelyOnBytes(MaximizeF, fb, l, s, r)
MinB(fb, l, s, r) == LikelyOnBytes(MinimizeF, fb, l, s, r)

LikelyOps == {"maximize", "minimize"}
ApplyOpL(v, o, fb) ==
    IF o.op = "maximize" THEN ApplyLikely(v, LAMBDA l, s, r : MaxB(fb, l, s, r))
    ELSE IF o.op = "minimize" THEN ApplyLikely(v, LAMBDA l, s, r : MinB(fb, l, s, r))
    ELSE ApplyOp(v, o)

(* the step an implementation WITHOUT the optional UTS #35 fallbacks takes, and (alt) the steps an    *)
(* implementation with any subset of them takes; properties C06-C08 allow each.  A history is a path of the      *)
(* machine along the fallback-free answers; a replayer that observes `alt` has left that path        *)
(* legitimately and stops comparing the remaining steps.                                              *)
StepRecL(v, o) ==
    LET r == ApplyOpL(v, o, FbNone)
        alts == IF o.op \in LikelyOps
                THEN { [res |-> a.res, st |-> a.obj, ser |-> SerLoc(a.obj)] : a \in { ApplyOpL(v, o, fb) : fb \in CfgsFor(T, StrOf(v.id.lang)) } }
                ELSE {} IN
    [op |-> o, res |-> r.res, st |-> r.obj, ser |-> SerLoc(r.obj), empties |-> IsEmptyFlags(r.obj),
     alt |-> SetToSeq(alts)]
RunOpsL(v, ops) == FoldLeft(LAMBDA acc, o : ApplyOpL(acc, o, FbNone).obj, v, ops)
StepsOfL(v, ops) == [k \in 1..Len(ops) |-> StepRecL(RunOpsL(v, SubSeq(ops, 1, k - 1)), ops[k])]
=============================================================================
