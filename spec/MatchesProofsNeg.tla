------------------------- MODULE MatchesProofsNeg -------------------------
(* negative control: matching is NOT symmetric unless the flags are swapped *)
(* together with the operands; the provers must reject this                 *)
EXTENDS Locale, TLAPS
THEOREM Bogus ==
    ASSUME NEW a, NEW b, NEW ra \in BOOLEAN, NEW rb \in BOOLEAN
    PROVE  MatchesLI(a, b, ra, rb) = MatchesLI(b, a, ra, rb)
  BY DEF MatchesLI, FieldMatch
=============================================================================
