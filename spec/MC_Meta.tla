------------------------------ MODULE MC_Meta ------------------------------
(***************************************************************************)
(* C09 as a transition system.  A state is an input text, kept as tokens   *)
(* plus the separator byte in front of each token.  Every action is one    *)
(* MEANING-PRESERVING transformation:                                      *)
(*   ToggleSep    '-' <-> '_' at one position                              *)
(*   ToggleCase   change the letter case of one token (or of one byte)     *)
(*   SwapSame     exchange two adjacent variants / attributes              *)
(*   Duplicate    repeat a variant / attribute (next to the original)      *)
(*   DupFar       repeat a variant / attribute at the END of its list      *)
(*   SwapGroups   exchange two adjacent keyword groups or tfield groups    *)
(*                with distinct keys                                       *)
(*   SwapUT       exchange the -u- and the -t- extension                   *)
(* The action property ParseInvariant says the specification's parse is    *)
(* unchanged by every step; every step is also printed as a test case      *)
(* (a, b, transformation) and both texts go through the real parsers.      *)
(***************************************************************************)
EXTENDS Locale, Ascii, TLC, Json, IOUtils

CONSTANTS MaxSteps, SeedSet

VARIABLES toks, seps, n

Bytes == JoinWith(toks, seps)

(* ----- roles: what the automaton took each token for -------------------- *)
RoleOf(s, t) ==
    IF s.ph = "dead" THEN "dead"
    ELSE IF s.ph \in {"x0", "x1"} THEN (IF IsPriv(t) THEN "priv" ELSE "bad")
    ELSE IF t = <<>> THEN "empty"
    ELSE IF s.ph \in {"l1", "l2", "l3"} /\ LIFits(s.ph, t) THEN
         (IF s.ph = "l1" /\ IsScript(t) THEN "script"
          ELSE IF s.ph \in {"l1", "l2"} /\ IsRegion(t) THEN "region" ELSE "variant")
    ELSE IF IsSingleton(t) /\ s.ph \notin {"dead"} THEN
         (LET c == LowerB(t[1]) IN IF c = 117 THEN "sing-u" ELSE IF c = 116 THEN "sing-t"
                                   ELSE IF c = 120 THEN "sing-x" ELSE "sing-o")
    ELSE IF s.ph \in {"u0", "ua"} THEN (IF IsAttr(t) THEN "attr" ELSE IF IsUKey(t) THEN "ukey" ELSE "bad")
    ELSE IF s.ph = "uk" THEN (IF IsUType(t) THEN "utype" ELSE IF IsUKey(t) THEN "ukey" ELSE "bad")
    ELSE IF s.ph = "t0" THEN (IF IsLanguage(t) THEN "tlang" ELSE IF IsTKey(t) THEN "tkey" ELSE "bad")
    ELSE IF s.ph = "tl" THEN
         (IF LIFits(s.tlph, t) THEN
              (IF s.tlph = "l1" /\ IsScript(t) THEN "tscript"
               ELSE IF s.tlph \in {"l1", "l2"} /\ IsRegion(t) THEN "tregion" ELSE "tvariant")
          ELSE IF IsTKey(t) THEN "tkey" ELSE "bad")
    ELSE IF s.ph \in {"tk", "tv"} THEN (IF IsTValue(t) THEN "tvalue" ELSE IF IsTKey(t) THEN "tkey" ELSE "bad")
    ELSE IF s.ph \in {"o0", "o1"} THEN (IF IsOtherSub(t) THEN "osub" ELSE "bad")
    ELSE "bad"

(* roles[i] for i >= 2 (token 1 is the language or rubbish)                 *)
Roles(ts) ==
    LET start == IF IsLanguage(ts[1]) THEN [LocStart0 EXCEPT !.id.lang = CanonLanguage(ts[1])]
                 ELSE Dead(LocStart0, "bad-language")
        step(acc, t) == [st |-> LocStep(acc.st, t), roles |-> Append(acc.roles, RoleOf(acc.st, t))]
    IN FoldLeft(step, [st |-> start, roles |-> <<"lang">>], Tail(ts)).roles

(* ----- seeds -------------------------------------------------------------- *)
Seed(str) == LET ts == Split(B(str)) IN [toks |-> ts, seps |-> [i \in 1..(Len(ts) - 1) |-> 45]]
SeedsA == { Seed("en-Latn-US-valencia-1996"),
            Seed("en-u-foo-bar-ca-buddhist-hc-h12"),
            Seed("en-t-de-AT-1996-bavarian-h0-hybrid-k0-dvorak"),
            Seed("und-u-ca-islamic-civil-t-en-h0-hybrid-x-b-a"),
            Seed("en-US-valencia-t-k0-dvorak-u-ca-buddhist-x-foo"),
            Seed("de-u-kn-true-co-phonebk-t-k0-true-h0-hybrid"),
            Seed("sl-1abc-rozaj-t-sl-1abc-rozaj-m0-true") }
SeedsB == { Seed("en-u-ca-buddhist-ca-gregory"),          \* duplicate key (free zone)
            Seed("en-US-u-attr-u-ca-true"),               \* repeated singleton
            Seed("en-Latn-Latn"), Seed("en-t-en-US-de"), Seed("en-a-foo-u-ca"),
            Seed("en--US"), Seed("en-u-"), Seed("e-US"), Seed("en-valencia-abcd"),
            Seed("en-t-h0-u-ca"), Seed("en-x-u-ca-t-en"), Seed("en-x-a--") }
SeedsC == { Seed("sr-Cyrl-RS-1abc-valencia-u-abc-def-nu-latn-co-phonebk-t-und-Latn-m0-names-s0-ascii") }
(* long lists: a dozen members per unordered part                            *)
SeedsD == { Seed("sl-1abc-aaaaa-bbbbb-ccccc-ddddd-eeeee-fffff-ggggg-hhhhh-iiiii-jjjjj-kkkkk"),
            Seed("en-u-a01-a02-a03-a04-a05-a06-a07-a08-a09-a10-a11-a12"),
            Seed("en-u-ca-x1x-cb-x1x-cc-x1x-cd-x1x-ce-x1x-cf-x1x-cg-x1x-ch-x1x-ci-x1x-cj-x1x"),
            Seed("en-t-a0-x1x-b0-x1x-c0-x1x-d0-x1x-e0-x1x-f0-x1x-g0-x1x-h0-x1x-i0-x1x-j0-x1x") }
(* emptiness: an extension with nothing in it (in front of another one, or at the end), leading / trailing / doubled     *)
(* separators.  C03 leaves the verdict on such texts to the implementation, C09 still wants the two spellings / the two   *)
(* orders of one text to fare alike                                                                                       *)
SeedsE == { Seed("en-u-t-es"), Seed("en-t-u-foo"), Seed("en-t-es-u"), Seed("en-u-foo-t"), Seed("en-u-t-x-a"),
            Seed("en-US-"), Seed("en-"), Seed("-en"), Seed("en-US--valencia"), Seed("ca-ES-valencia-"),
            Seed("en-u-ca-"), Seed("en-t-h0-"), Seed("en-x-"), Seed("en-u-t"), Seed("en-t-u"),
            Seed("en-u-ca-t-h0"), Seed("en-valencia--valencia") }
(* whole multi-subtag literals of the library's sources (VERIF_DICT_TAGS): a table of special tags matched as a whole  *)
(* must treat every spelling of a tag alike                                                                             *)
TagsRaw == JsonDeserialize(IOEnv.VERIF_DICT_TAGS)
SeedsT == { LET ts == Split(TagsRaw[q]) IN [toks |-> ts, seps |-> [i \in 1..(Len(ts) - 1) |-> 45]] : q \in 1..Len(TagsRaw) }
Seeds == IF SeedSet = "T" THEN SeedsT ELSE IF SeedSet = "A" THEN SeedsA ELSE IF SeedSet = "B" THEN SeedsB ELSE IF SeedSet = "E" THEN SeedsE
         ELSE IF SeedSet = "C" THEN SeedsC ELSE IF SeedSet = "D" THEN SeedsD ELSE SeedsA \cup SeedsB

Init == \E sd \in Seeds : toks = sd.toks /\ seps = sd.seps /\ n = 0

(* ----- transformations ---------------------------------------------------- *)
SwapAt(seq, i, j) == [seq EXCEPT ![i] = seq[j], ![j] = seq[i]]
FlipCase(t) == IF t = LowerSeq(t) THEN UpperSeq(t) ELSE LowerSeq(t)
FlipByte(t, j) == [t EXCEPT ![j] = IF IsUpperB(@) THEN LowerB(@) ELSE UpperB(@)]

(* groups: [from, to] of a key token and its values                         *)
GroupEnd(roles, i, valRole) ==
    LET later == { j \in (i+1)..Len(roles) : roles[j] # valRole } IN
    IF later = {} THEN Len(roles) ELSE (CHOOSE j \in later : \A k \in later : j <= k) - 1
(* move the block [a..b] behind the block [b+1..c]                          *)
Rotate(seq, a, b, c) ==
    SubSeq(seq, 1, a-1) \o SubSeq(seq, b+1, c) \o SubSeq(seq, a, b) \o SubSeq(seq, c+1, Len(seq))

Emit(tr, ts2, ss2) ==
    PrintT("CASE " \o ToJson([k |-> "meta", a |-> Bytes, b |-> JoinWith(ts2, ss2), tr |-> tr]))

Do(tr, ts2, ss2) == /\ toks' = ts2 /\ seps' = ss2 /\ n' = n + 1 /\ Emit(tr, ts2, ss2)

ToggleSep == \E i \in 1..Len(seps) :
    Do("sep", toks, [seps EXCEPT ![i] = IF @ = 45 THEN 95 ELSE 45])
ToggleCase == \E i \in 1..Len(toks) : toks[i] # FlipCase(toks[i]) /\
    Do("case", [toks EXCEPT ![i] = FlipCase(@)], seps)
ToggleByte == \E i \in 1..Len(toks) : \E j \in {1, Len(toks[i])} :
    /\ j >= 1 /\ j <= Len(toks[i]) /\ IsAlpha(toks[i][j])
    /\ Do("case1", [toks EXCEPT ![i] = FlipByte(@, j)], seps)
SwapSame == LET roles == Roles(toks) IN
    \E i \in 2..(Len(toks) - 1) :
        /\ roles[i] = roles[i+1] /\ roles[i] \in {"variant", "attr", "tvariant"}
        /\ Do("swap-" \o roles[i], SwapAt(toks, i, i+1), seps)
Duplicate == LET roles == Roles(toks) IN
    \E i \in 2..Len(toks) :
        /\ roles[i] \in {"variant", "attr", "tvariant"}
        /\ Do("dup-" \o roles[i],
              SubSeq(toks, 1, i) \o <<toks[i]>> \o SubSeq(toks, i+1, Len(toks)),
              SubSeq(seps, 1, i-1) \o <<45>> \o SubSeq(seps, i, Len(seps)))
(* the copy goes behind the last member of the list the original is in      *)
RunEnd(roles, i) ==
    LET later == { j \in (i+1)..Len(roles) : roles[j] # roles[i] } IN
    IF later = {} THEN Len(roles) ELSE (CHOOSE j \in later : \A k \in later : j <= k) - 1
DupFar == LET roles == Roles(toks) IN
    \E i \in 2..Len(toks) :
        /\ roles[i] \in {"variant", "attr", "tvariant"}
        /\ LET e == RunEnd(roles, i) IN
           /\ e > i
           /\ Do("dupfar-" \o roles[i],
                 SubSeq(toks, 1, e) \o <<toks[i]>> \o SubSeq(toks, e+1, Len(toks)),
                 SubSeq(seps, 1, e-1) \o <<45>> \o SubSeq(seps, e, Len(seps)))
SwapGroups == LET roles == Roles(toks) IN
    \E i \in 2..Len(toks) : \E kr \in {"ukey", "tkey"} :
        LET vr == IF kr = "ukey" THEN "utype" ELSE "tvalue"
            e1 == GroupEnd(roles, i, vr) IN
        /\ roles[i] = kr /\ e1 < Len(toks) /\ roles[e1 + 1] = kr
        /\ LowerSeq(toks[i]) # LowerSeq(toks[e1 + 1])
        /\ LET e2 == GroupEnd(roles, e1 + 1, vr) IN
           Do("swap-" \o kr, Rotate(toks, i, e1, e2), seps)
(* the -u- block and the -t- block, when adjacent: [su..eu][st..et]         *)
BlockEnd(roles, i) ==
    LET later == { j \in (i+1)..Len(roles) : roles[j] \in {"sing-u", "sing-t", "sing-x", "sing-o", "dead", "bad", "empty"} } IN
    IF later = {} THEN Len(roles) ELSE (CHOOSE j \in later : \A k \in later : j <= k) - 1
SwapUT == LET roles == Roles(toks) IN
    \E i \in 2..Len(toks) :
        LET e1 == BlockEnd(roles, i) IN
        /\ roles[i] \in {"sing-u", "sing-t"} /\ e1 < Len(toks)
        /\ roles[e1 + 1] \in {"sing-u", "sing-t"} /\ roles[e1 + 1] # roles[i]
        /\ LET e2 == BlockEnd(roles, e1 + 1) IN
           Do("swap-ut", Rotate(toks, i, e1, e2), seps)

Next == n < MaxSteps /\ (ToggleSep \/ ToggleCase \/ ToggleByte \/ SwapSame \/ Duplicate \/ DupFar \/ SwapGroups \/ SwapUT)
Spec == Init /\ [][Next]_<<toks, seps, n>>

(* ----- the property, on the specification -------------------------------- *)
Verdict(r) == IF r.zone = "reject" THEN "reject" ELSE "ok"
ParseInvariant ==
    [][ LET r1 == ParseLoc(Bytes)  r2 == ParseLoc(JoinWith(toks', seps')) IN
        /\ Verdict(r1) = Verdict(r2)
        /\ r1.zone # "reject" => (r1.val = r2.val /\ SerLoc(r1.val) = SerLoc(r2.val))
        /\ LET i1 == ParseLI(Bytes)  i2 == ParseLI(JoinWith(toks', seps')) IN
           i1.ok = i2.ok /\ (i1.ok => i1.val = i2.val) ]_<<toks, seps, n>>
SplitAgrees == Split(Bytes) = toks
=============================================================================
