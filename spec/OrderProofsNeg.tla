-------------------------- MODULE OrderProofsNeg --------------------------
(* negative control: totality WITHOUT the premise a # b is false (a strict  *)
(* order is irreflexive); the provers must reject it                         *)
EXTENDS OrderProofs
THEOREM Bogus ==
    ASSUME NEW a \in LIV, NEW b \in LIV
    PROVE  LessLI(a, b) \/ LessLI(b, a)
  BY LessLITotal, LessLITransitive DEF LessLI, LessOpt
=============================================================================
