---------------------------- MODULE LocaleObject ----------------------------
(***************************************************************************)
(* The mutable Locale / LanguageIdentifier object as a state machine: one  *)
(* action per public mutator or getter.  The reference model is made of    *)
(* sorted sets (variants, attributes), a sorted multiset (private tags)    *)
(* and ordered maps (keywords, tfields) -- property C10.                   *)
(*                                                                         *)
(* An operation is a record [op, s, key, vals]; arguments are arbitrary     *)
(* byte strings.  ApplyOp(v, o) = [obj |-> v', res |-> r]:                   *)
(*   - an argument that is not well formed yields r = Err and v' = v;        *)
(*   - accepted arguments are normalised exactly as the parser normalises.   *)
(***************************************************************************)
EXTENDS Locale

Op(name, s, key, vals) == [op |-> name, s |-> s, key |-> key, vals |-> vals]
Op0(name)        == Op(name, <<>>, <<>>, <<>>)
OpS(name, s)     == Op(name, s, <<>>, <<>>)
OpK(name, k)     == Op(name, <<>>, k, <<>>)
OpKV(name, k, v) == Op(name, <<>>, k, v)
OpV(name, v)     == Op(name, <<>>, <<>>, v)

Ok      == [k |-> "ok"]
OkB(x)  == [k |-> "ok", b |-> x]
OkL(l)  == [k |-> "ok", l |-> l]
Err     == [k |-> "err"]
R(v, r) == [obj |-> v, res |-> r]

(* ----- ordered maps as sequences of <<key, values>> sorted by key -------- *)
MapHas(pairs, k) == \E i \in 1..Len(pairs) : pairs[i][1] = k
MapGet(pairs, k) == IF MapHas(pairs, k)
                    THEN pairs[CHOOSE i \in 1..Len(pairs) : pairs[i][1] = k][2] ELSE <<>>
MapDel(pairs, k) == SelectSeq(pairs, LAMBDA p : p[1] # k)
MapPut(pairs, k, v) ==
    LET rest == MapDel(pairs, k)
        n == Cardinality({ i \in 1..Len(rest) : SeqLess(rest[i][1], k) })
    IN SubSeq(rest, 1, n) \o << <<k, v>> >> \o SubSeq(rest, n + 1, Len(rest))

AllOf(vals, P(_)) == \A i \in 1..Len(vals) : P(vals[i])
LowerAll(vals) == [i \in 1..Len(vals) |-> LowerSeq(vals[i])]
Without(seq, x) == SelectSeq(seq, LAMBDA y : y # x)

(* what to_string() re-parses to; Err when the text is not acceptable       *)
Reparsed(v) ==
    LET r == ParseLoc(SerLoc(v)) IN
    IF r.zone = "accept" \/ (r.zone = "either" /\ r.onlyEmptyTf)
      THEN R(r.val, OkB(r.val = v)) ELSE R(v, Err)

(* Likely-subtags actions are parameterised by the lookup functions so that *)
(* this module stays independent of the table (see Likely.tla).             *)
ApplyLikely(v, F(_, _, _)) ==
    LET r == F(v.id.lang, v.id.script, v.id.region) IN
    IF r[1] THEN R([v EXCEPT !.id.lang = r[2][1], !.id.script = r[2][2], !.id.region = r[2][3]], OkB(TRUE))
    ELSE R(v, OkB(FALSE))

ApplyOp(v, o) ==
    LET n == o.op  s == o.s  k == LowerSeq(o.key)  vals == o.vals IN
    CASE n = "set_language" ->
           IF IsLanguage(s) THEN R([v EXCEPT !.id.lang = CanonLanguage(s)], Ok) ELSE R(v, Err)
      [] n = "clear_language" -> R([v EXCEPT !.id.lang = Und], Ok)
      [] n = "set_script" ->
           IF IsScript(s) THEN R([v EXCEPT !.id.script = CanonScript(s)], Ok) ELSE R(v, Err)
      [] n = "clear_script" -> R([v EXCEPT !.id.script = <<>>], Ok)
      [] n = "set_region" ->
           IF IsRegion(s) THEN R([v EXCEPT !.id.region = CanonRegion(s)], Ok) ELSE R(v, Err)
      [] n = "clear_region" -> R([v EXCEPT !.id.region = <<>>], Ok)
      [] n = "set_variants" ->
           IF AllOf(vals, IsVariant)
             THEN R([v EXCEPT !.id.variants = SortDedup(LowerAll(vals))], Ok) ELSE R(v, Err)
      [] n = "clear_variants" -> R([v EXCEPT !.id.variants = <<>>], Ok)
      [] n = "has_variant" ->
           IF IsVariant(s) THEN R(v, OkB(LowerSeq(s) \in SeqRange(v.id.variants))) ELSE R(v, Err)
      (* -u- keywords: ordered map key -> type list; 'true' is implied      *)
      [] n = "set_keyword" ->
           IF IsUKey(o.key) /\ AllOf(vals, IsUType)
             THEN R([v EXCEPT !.kw = MapPut(@, k, DropTrue(LowerAll(vals)))], Ok) ELSE R(v, Err)
      [] n = "remove_keyword" ->
           IF IsUKey(o.key) THEN R([v EXCEPT !.kw = MapDel(@, k)], OkB(MapHas(v.kw, k))) ELSE R(v, Err)
      [] n = "clear_keywords" -> R([v EXCEPT !.kw = <<>>], Ok)
      [] n = "keyword" -> IF IsUKey(o.key) THEN R(v, OkL(MapGet(v.kw, k))) ELSE R(v, Err)
      (* -u- attributes: sorted set                                          *)
      [] n = "set_attribute" ->
           IF IsAttr(s) THEN R([v EXCEPT !.attrs = SortDedup(Append(@, LowerSeq(s)))], Ok) ELSE R(v, Err)
      [] n = "remove_attribute" ->
           IF IsAttr(s) THEN R([v EXCEPT !.attrs = Without(@, LowerSeq(s))],
                               OkB(LowerSeq(s) \in SeqRange(v.attrs))) ELSE R(v, Err)
      [] n = "has_attribute" ->
           IF IsAttr(s) THEN R(v, OkB(LowerSeq(s) \in SeqRange(v.attrs))) ELSE R(v, Err)
      [] n = "clear_attributes" -> R([v EXCEPT !.attrs = <<>>], Ok)
      (* -t-: optional tlang + ordered map tkey -> tvalue list               *)
      [] n = "set_tlang" ->
           LET r == ParseLI(s) IN IF r.ok THEN R([v EXCEPT !.tlang = <<r.val>>], Ok) ELSE R(v, Err)
      [] n = "clear_tlang" -> R([v EXCEPT !.tlang = <<>>], Ok)
      [] n = "set_tfield" ->
           IF IsTKey(o.key) /\ AllOf(vals, IsTValue)
             THEN R([v EXCEPT !.tf = MapPut(@, k, DropTrue(LowerAll(vals)))], Ok) ELSE R(v, Err)
      [] n = "remove_tfield" ->
           IF IsTKey(o.key) THEN R([v EXCEPT !.tf = MapDel(@, k)], OkB(MapHas(v.tf, k))) ELSE R(v, Err)
      [] n = "clear_tfields" -> R([v EXCEPT !.tf = <<>>], Ok)
      [] n = "tfield" -> IF IsTKey(o.key) THEN R(v, OkL(MapGet(v.tf, k))) ELSE R(v, Err)
      (* -x-: sorted multiset                                                 *)
      [] n = "add_tag" ->
           IF IsPriv(s) THEN R([v EXCEPT !.priv = InsertSorted(@, LowerSeq(s))], Ok) ELSE R(v, Err)
      [] n = "remove_tag" ->
           IF IsPriv(s) THEN R([v EXCEPT !.priv = RemoveOne(@, LowerSeq(s))],
                               OkB(LowerSeq(s) \in SeqRange(v.priv))) ELSE R(v, Err)
      [] n = "has_tag" ->
           IF IsPriv(s) THEN R(v, OkB(LowerSeq(s) \in SeqRange(v.priv))) ELSE R(v, Err)
      [] n = "clear_tags" -> R([v EXCEPT !.priv = <<>>], Ok)
      [] n = "reparse" -> Reparsed(v)

IsEmptyFlags(v) == << v.attrs = <<>> /\ v.kw = <<>>,
                      v.tlang = <<>> /\ v.tf = <<>>,
                      v.priv = <<>>,
                      ExtToks(v) = <<>> >>

(* one step of a history, as the harness will see it                        *)
StepRec(v, o) ==
    LET r == ApplyOp(v, o) IN
    [op |-> o, res |-> r.res, st |-> r.obj, ser |-> SerLoc(r.obj), empties |-> IsEmptyFlags(r.obj)]

(* the value after a whole history                                          *)
RunOps(v, ops) == FoldLeft(LAMBDA acc, o : ApplyOp(acc, o).obj, v, ops)
StepsOf(v, ops) ==
    [i \in 1..Len(ops) |-> StepRec(RunOps(v, SubSeq(ops, 1, i - 1)), ops[i])]

(* ----- invariants of the object ------------------------------------------ *)
ObjOK(v) == LocValueOK(v)
ObjRoundTrip(v) ==
    LET s == SerLoc(v)  r == ParseLoc(s) IN
    /\ r.zone = "accept" \/ (r.zone = "either" /\ r.onlyEmptyTf)
    /\ r.val = v
    /\ SerLoc(r.val) = s
ObjExtRoundTrip(v) ==
    LET r == ParseExt(SerExt(v)) IN
    /\ r.zone = "accept" \/ (r.zone = "either" /\ r.onlyEmptyTf)
    /\ [r.val EXCEPT !.id = v.id] = v
=============================================================================
