----------------------------- MODULE TracePair -----------------------------
(***************************************************************************)
(* C20: optional features are purely additive.  Two event logs produced by *)
(* the same seeded drivers -- one from a build with some feature set, one   *)
(* from the build with no features -- are stepped in lock-step.  Every pair *)
(* of events must be identical, except character_direction events, which   *)
(* may differ only where the likely-subtags refinement can apply: an        *)
(* identifier of a language CLDR lists as right-to-left whose script is     *)
(* absent or not one CLDR lists (C20 compares the transcripts "outside the  *)
(* character_direction column"; where a listed script or a never-RTL        *)
(* language fixes the answer in every configuration, C14, a difference is   *)
(* still reported).                                                         *)
(*   env TRACE_A  the feature build's log;  env TRACE_B  the base log      *)
(***************************************************************************)
EXTENDS Cldr, Ascii

RecA == ndJsonDeserialize(IOEnv.TRACE_A)
RecB == ndJsonDeserialize(IOEnv.TRACE_B)

VARIABLE pos

DirRefines(a, b) ==
    /\ a.l = b.l /\ a.s = b.s /\ a.r = b.r
    (* in either configuration the answer is a function of the identifier: asked twice, the same answer twice *)
    /\ "dir2" \in DOMAIN a => a.dir2 = a.dir
    /\ "dir2" \in DOMAIN b => b.dir2 = b.dir
    /\ \/ a.dir = b.dir
       \/ /\ StrOfBytes(a.l) \in D.rtlLangs
          /\ a.s = <<>> \/ StrOfBytes(a.s) \notin ListedScripts

Same(a, b) ==
    IF a.op = "dir" /\ b.op = "dir" THEN DirRefines(a, b)
    ELSE a = b

Init == pos = 1
Next == /\ pos <= Len(RecA) /\ pos <= Len(RecB)
        /\ IF Same(RecA[pos], RecB[pos]) THEN TRUE
           ELSE PrintT("MISMATCH " \o ToJson([line |-> pos, why |-> "feature-changes-result-of-" \o RecA[pos].op,
                                               props |-> <<"C20">>, event |-> [with |-> RecA[pos], base |-> RecB[pos]]]))
        /\ pos' = pos + 1
TraceSpec == Init /\ [][Next]_pos

TraceAccepted ==
    IF Len(RecA) = Len(RecB) /\ TLCGet("stats").diameter - 1 = Len(RecA) THEN PrintT("TRACE-ACCEPTED")
    ELSE PrintT("MISMATCH " \o ToJson([line |-> 0, why |-> "transcripts-differ-in-length", props |-> <<"C20">>,
                                        event |-> [with |-> Len(RecA), base |-> Len(RecB)]]))
=============================================================================
