----------------------------- MODULE ImplParser -----------------------------
(***************************************************************************)
(* A small-step model of the parser AS IMPLEMENTED: one action per loop    *)
(* iteration of the real code, with the real code's peek / next discipline *)
(* on the subtag iterator.  `k` is the index of the next subtag the        *)
(* iterator would yield; "peek" reads toks[k] without advancing, "next"    *)
(* advances.                                                               *)
(*                                                                         *)
(*   pc = "lang"   parse_language_identifier_from_iter: first subtag        *)
(*        "li"     ... its position loop (script / region / variants)       *)
(*        "ext"    ExtensionsMap::try_from_iter: dispatch on a singleton    *)
(*        "u"      UnicodeExtensionList::try_from_iter loop                 *)
(*        "t"      TransformExtensionList::try_from_iter loop               *)
(*        "tl"     the tlang's own position loop (nested call)              *)
(*        "x"      PrivateExtensionList::try_from_iter loop                 *)
(*        "done" / "err"                                                    *)
(*                                                                         *)
(* Where Locale.tla leaves an implementation free (the either / other /    *)
(* free zones) this module records the choice the library makes.  TLC      *)
(* checks (MC_Impl) that this design                                       *)
(*   - terminates: every step consumes a subtag or leaves a loop (a         *)
(*     ranking function strictly decreases) -- the progress argument of C01 *)
(*   - refines the abstract automaton: accept => Ok with the same value,    *)
(*     reject => Err, either/other => Err or the same value, free => a      *)
(*     well-formed value whose text round-trips (C03, C04, C05).            *)
(***************************************************************************)
EXTENDS Locale

VARIABLES toks, k, pc, acc

ivars == <<toks, k, pc, acc>>

Acc0 == [id |-> LIDefault, pos |-> 1,
         attrs |-> <<>>, kw |-> <<>>, curKey |-> <<>>, curTypes |-> <<>>,
         tlang |-> <<>>, tlpos |-> 1, tf |-> <<>>, curTKey |-> <<>>, curTVals |-> <<>>,
         priv |-> <<>>, seenU |-> FALSE, seenT |-> FALSE]

AtEnd == k > Len(toks)
Peek == toks[k]

(* ---- helpers that mirror helper functions of the code ------------------- *)
PutMap(pairs, key, vals) ==        \* BTreeMap::insert: a later key replaces
    LET rest == SelectSeq(pairs, LAMBDA p : p[1] # key)
        n == Cardinality({ j \in 1..Len(rest) : SeqLess(rest[j][1], key) })
    IN SubSeq(rest, 1, n) \o << <<key, vals>> >> \o SubSeq(rest, n + 1, Len(rest))
FlushKw(a) == IF a.curKey = <<>> THEN a
              ELSE [a EXCEPT !.kw = PutMap(@, a.curKey, a.curTypes), !.curKey = <<>>, !.curTypes = <<>>]
FlushTf(a) == IF a.curTKey = <<>> THEN a
              ELSE [a EXCEPT !.tf = PutMap(@, a.curTKey, a.curTVals), !.curTKey = <<>>, !.curTVals = <<>>]
IsLanguageSubtagLoose(t) == Len(t) \in 2..8 /\ AllAlpha(t)      \* is_language_subtag() in transform.rs (admits 4 letters)
TKeyShaped(t) == Len(t) = 2 /\ IsAlpha(t[1]) /\ IsDigit(t[2])

(* one iteration of the language-identifier position loop, on (pos, id)      *)
LiFits(pos, t) == \/ pos = 1 /\ (IsScript(t) \/ IsRegion(t) \/ IsVariant(t))
                  \/ pos = 2 /\ (IsRegion(t) \/ IsVariant(t))
                  \/ pos = 3 /\ IsVariant(t)
LiTake(pos, id, t) ==
    IF pos = 1 /\ IsScript(t) THEN <<2, [id EXCEPT !.script = CanonScript(t)]>>
    ELSE IF pos \in {1, 2} /\ IsRegion(t) THEN <<3, [id EXCEPT !.region = CanonRegion(t)]>>
    ELSE <<3, [id EXCEPT !.variants = Append(@, CanonVariant(t))]>>

(* ---- actions -------------------------------------------------------------- *)
Lang == /\ pc = "lang"
        /\ IF IsLanguage(toks[1])
             THEN pc' = "li" /\ acc' = [acc EXCEPT !.id.lang = CanonLanguage(toks[1])] /\ k' = 2
             ELSE pc' = "err" /\ UNCHANGED <<acc, k>>
        /\ UNCHANGED toks

Li == /\ pc = "li"
      /\ IF ~AtEnd /\ LiFits(acc.pos, Peek)
           THEN LET r == LiTake(acc.pos, acc.id, Peek) IN
                acc' = [acc EXCEPT !.pos = r[1], !.id = r[2]] /\ k' = k + 1 /\ pc' = "li"
           ELSE (* break (or iterator exhausted): variants sorted and de-duplicated *)
                acc' = [acc EXCEPT !.id = LINorm(@)] /\ pc' = "ext" /\ k' = k
      /\ UNCHANGED toks

Ext == /\ pc = "ext"
       /\ UNCHANGED toks
       /\ IF AtEnd THEN pc' = "done" /\ UNCHANGED <<acc, k>>
          ELSE LET t == Peek IN
               /\ k' = k + 1                                     \* st = iter.next()
               /\ IF t = <<>> THEN pc' = "ext" /\ UNCHANGED acc   \* None => {}
                  ELSE IF Len(t) > 1 THEN pc' = "err" /\ UNCHANGED acc
                  ELSE LET c == LowerB(t[1]) IN
                       IF c = 117 THEN (IF acc.seenU THEN pc' = "err" /\ UNCHANGED acc
                                        ELSE pc' = "u" /\ acc' = [acc EXCEPT !.seenU = TRUE, !.attrs = <<>>, !.kw = <<>>])
                       ELSE IF c = 116 THEN (IF acc.seenT THEN pc' = "err" /\ UNCHANGED acc
                                             ELSE pc' = "t" /\ acc' = [acc EXCEPT !.seenT = TRUE])
                       ELSE IF c = 120 THEN pc' = "x" /\ UNCHANGED acc
                       ELSE pc' = "err" /\ UNCHANGED acc          \* other / non-alphanumeric

U == /\ pc = "u"
     /\ UNCHANGED toks
     /\ IF AtEnd \/ ~(Len(Peek) = 2 \/ (acc.curKey # <<>> /\ IsUType(Peek)) \/ IsAttr(Peek))
          THEN (* leave the loop: flush the pending keyword, sort/dedup the attributes *)
               /\ acc' = [FlushKw(acc) EXCEPT !.attrs = SortDedup(@)]
               /\ pc' = "ext" /\ k' = k
          ELSE LET t == Peek IN
               IF Len(t) = 2 THEN
                    IF IsUKey(t) THEN acc' = [FlushKw(acc) EXCEPT !.curKey = LowerSeq(t)] /\ k' = k + 1 /\ pc' = "u"
                    ELSE pc' = "err" /\ UNCHANGED <<acc, k>>        \* parse_key(subtag)?
               ELSE IF acc.curKey # <<>> /\ IsUType(t) THEN
                    /\ acc' = [acc EXCEPT !.curTypes = IF LowerSeq(t) = TrueWord THEN @ ELSE Append(@, LowerSeq(t))]
                    /\ k' = k + 1 /\ pc' = "u"
               ELSE acc' = [acc EXCEPT !.attrs = Append(@, LowerSeq(t))] /\ k' = k + 1 /\ pc' = "u"

T == /\ pc = "t"
     /\ UNCHANGED toks
     /\ IF AtEnd THEN acc' = FlushTf(acc) /\ pc' = "ext" /\ k' = k
        ELSE LET t == Peek IN
             IF TKeyShaped(t) THEN acc' = [FlushTf(acc) EXCEPT !.curTKey = LowerSeq(t)] /\ k' = k + 1 /\ pc' = "t"
             ELSE IF acc.curTKey # <<>> /\ Len(t) # 1 THEN
                  IF IsTValue(t) THEN
                       /\ acc' = [acc EXCEPT !.curTVals = IF LowerSeq(t) = TrueWord THEN @ ELSE Append(@, LowerSeq(t))]
                       /\ k' = k + 1 /\ pc' = "t"
                  ELSE pc' = "err" /\ UNCHANGED <<acc, k>>          \* parse_tvalue(subtag)?
             ELSE IF IsLanguageSubtagLoose(t) THEN
                  IF acc.tlang # <<>> THEN pc' = "err" /\ UNCHANGED <<acc, k>>       \* second tlang
                  ELSE IF IsLanguage(t)                                               \* nested try_from_iter
                       THEN /\ acc' = [acc EXCEPT !.tlang = << [LIDefault EXCEPT !.lang = CanonLanguage(t)] >>, !.tlpos = 1]
                            /\ k' = k + 1 /\ pc' = "tl"
                       ELSE pc' = "err" /\ UNCHANGED <<acc, k>>                       \* 4 letters: InvalidLanguage
             ELSE acc' = FlushTf(acc) /\ pc' = "ext" /\ k' = k       \* break

Tl == /\ pc = "tl"
      /\ UNCHANGED toks
      /\ IF ~AtEnd /\ LiFits(acc.tlpos, Peek)
           THEN LET r == LiTake(acc.tlpos, acc.tlang[1], Peek) IN
                acc' = [acc EXCEPT !.tlpos = r[1], !.tlang = <<r[2]>>] /\ k' = k + 1 /\ pc' = "tl"
           ELSE acc' = [acc EXCEPT !.tlang = << LINorm(@[1]) >>] /\ pc' = "t" /\ k' = k

X == /\ pc = "x"
     /\ UNCHANGED toks
     /\ IF AtEnd THEN acc' = [acc EXCEPT !.priv = SortBag(@)] /\ pc' = "done" /\ k' = k
        ELSE IF IsPriv(Peek) THEN acc' = [acc EXCEPT !.priv = Append(@, LowerSeq(Peek))] /\ k' = k + 1 /\ pc' = "x"
        ELSE pc' = "err" /\ UNCHANGED <<acc, k>>

Step == Lang \/ Li \/ Ext \/ U \/ T \/ Tl \/ X
Terminated == pc \in {"done", "err"}

(* the value a finished run returns                                          *)
ImplVal == [id |-> acc.id, attrs |-> acc.attrs, kw |-> [j \in 1..Len(acc.kw) |-> acc.kw[j]],
            tlang |-> acc.tlang, tf |-> acc.tf, priv |-> acc.priv]

(* ---- termination: a ranking function that every step strictly decreases -- *)
PcWeight == CASE pc = "lang" -> 3 [] pc = "li" -> 2 [] pc = "tl" -> 2 [] pc \in {"u", "t", "x"} -> 1
              [] pc = "ext" -> 0 [] OTHER -> 0
Rank == IF Terminated THEN 0 ELSE 4 * (Len(toks) + 2 - k) + PcWeight
Progress == [][Step => Rank' < Rank]_ivars

(* ---- refinement of the abstract automaton --------------------------------- *)
Abstract == ParseLocTokens(toks)
Refines ==
    Terminated =>
        LET a == Abstract IN
        /\ a.zone = "accept" => pc = "done" /\ ImplVal = a.val
        /\ a.zone = "reject" => pc = "err"
        /\ a.zone \in {"either", "other"} => pc = "err" \/ ImplVal = a.val
        /\ (a.zone = "free" /\ pc = "done") =>
              /\ LocValueOK(ImplVal)
              /\ LET s == SerLoc(ImplVal)  r == ParseLoc(s) IN r.val = ImplVal /\ Len(s) <= Len(Join(toks))
=============================================================================
