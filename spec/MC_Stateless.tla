---------------------------- MODULE MC_Stateless ----------------------------
(***************************************************************************)
(* The likely-subtags and direction queries are FUNCTIONS of their          *)
(* arguments: as a state machine the library has exactly one state, so in   *)
(* every behaviour the answer to a call is the answer the same call gets    *)
(* as the first call of a fresh process.  The single-call models (MC_Cldr,  *)
(* MC_Sweep) cannot see an implementation that keeps something between      *)
(* calls (a memo of the last lookup, a scratch buffer, a lazily built       *)
(* index): each of their cases is judged on its own and in one fixed        *)
(* order.                                                                   *)
(*                                                                         *)
(* Here a behaviour is a SEQUENCE of calls about one language family:       *)
(* maximize / minimize / character_direction of (language, script, region)  *)
(* where script and region range over the subtags the data keys together    *)
(* with that language (plus absent, plus one the data does not know).       *)
(* Every sequence of up to K calls is one state and is printed as one case; the   *)
(* harness runs the K calls in that order on one thread and every call      *)
(* must get one of the answers the property allows for it -- whatever came  *)
(* before.  Families: every language CLDR lists as right-to-left (these     *)
(* are the ones whose direction depends on the likely script, hence on the  *)
(* region), a few ordinary ones, und and an unknown language.               *)
(***************************************************************************)
EXTENDS Cldr

CONSTANTS K,          \* calls per sequence
          Ops         \* "all" = maximize, minimize, direction; "dir" = direction only
VARIABLES fam, hist

vars == <<fam, hist>>

OpSet == IF Ops = "all" THEN {"max", "min", "dir"} ELSE {"dir"}

Families == D.rtlLangs \cup {"en", "zh", "sr", "mn", UndL, "qqq"}

LayoutOf(x) == { Triple(p[1]) : p \in { q \in LayoutLocales : Triple(q[1])[1] = x } }
(* the scripts / regions the likely-subtags data keys with x, and those of x's CLDR layout locales *)
KeyedS(x) == ({ k[2] : k \in { q \in KeySet : q[1] = x } } \cup { t[2] : t \in LayoutOf(x) }) \ {None}
KeyedR(x) == ({ k[3] : k \in { q \in KeySet : q[1] = x } } \cup { t[3] : t \in LayoutOf(x) }) \ {None}
(* regions that change the likely script of x (the ones a remembered lookup could get wrong), one that does not, absent,  *)
(* and one the data does not know; und is keyed with every script and region of the data: a fixed sample                  *)
LikelyScript(x, r) == Maximize(T, x, None, r)[2][2]
IntR(x) == { r \in KeyedR(x) : LikelyScript(x, r) # LikelyScript(x, None) }
OneOf(S) == IF S = {} THEN {} ELSE { CHOOSE e \in S : TRUE }
(* at most two members of S (the deeper the sequences, the fewer atoms: the number of sequences is |calls|^K) *)
Two(S) == LET a == OneOf(S) IN a \cup OneOf(S \ a)
SAt(x) == IF x = UndL THEN (IF K <= 2 THEN {None, "Latn", "Arab", "Hebr", "Cyrl", "Qabx"} ELSE {None, "Latn", "Arab"})
          ELSE IF K <= 2 THEN {None, "Qabx"} \cup KeyedS(x) ELSE {None} \cup Two(KeyedS(x))
RAt(x) == IF x = UndL THEN (IF K <= 2 THEN {None, "PK", "US", "IL", "QX"} ELSE {None, "PK", "US"})
          ELSE IF K <= 2 THEN {None, "QX"} \cup IntR(x) \cup OneOf(KeyedR(x) \ IntR(x))
          ELSE {None} \cup (IF IntR(x) = {} THEN Two(KeyedR(x)) ELSE OneOf(IntR(x)) \cup OneOf(KeyedR(x) \ IntR(x)))
Calls(x) == OpSet \X SAt(x) \X RAt(x)

Init == fam \in Families /\ hist = <<>>
Next == /\ Len(hist) < K
        /\ \E c \in Calls(fam) : hist' = Append(hist, c)
        /\ UNCHANGED fam
Spec == Init /\ [][Next]_vars

(* ----- what each call must answer, whatever came before ------------------ *)
Expect(l, c) ==
    [op |-> c[1], s |-> c[2], r |-> c[3],
     max |-> IF c[1] = "max" THEN SetToSeq(AllowedMax(T, l, c[2], c[3])) ELSE <<>>,
     min |-> IF c[1] = "min" THEN SetToSeq(AllowedMin(T, l, c[2], c[3])) ELSE <<>>,
     on  |-> IF c[1] = "dir" THEN SetToSeq(AllowedDir(l, c[2], c[3], TRUE, CldrOf(l, c[2], c[3]))) ELSE <<>>,
     off |-> IF c[1] = "dir" THEN SetToSeq(AllowedDir(l, c[2], c[3], FALSE, CldrOf(l, c[2], c[3]))) ELSE <<>>]

(* the specification itself is stateless: the expectation of step i is a    *)
(* function of step i alone, and it is never empty (some answer is allowed) *)
Stateless == \A i \in 1..Len(hist) :
    LET e == Expect(fam, hist[i]) IN
      /\ e.op = "max" => e.max # <<>>
      /\ e.op = "min" => e.min # <<>>
      /\ e.op = "dir" => e.on # <<>> /\ e.off # <<>>
(* the sequences are not vacuous: in the families that matter two calls of  *)
(* one sequence can have different answers (otherwise a memo could not hurt) *)
FamiliesDiffer == \A x \in D.rtlLangs : MultiDir(x) =>
    \E a, b \in SAt(x) \X RAt(x) :
        Direction(T, D, x, a[1], a[2], TRUE) # Direction(T, D, x, b[1], b[2], TRUE)
ASSUME FamiliesDiffer

EmitCase == Len(hist) >= 1 =>
    PrintT("CASE " \o ToJson([k |-> "seq", l |-> fam, steps |-> [i \in 1..Len(hist) |-> Expect(fam, hist[i])]]))
=============================================================================
