----------------------------- MODULE MC_LangId -----------------------------
(***************************************************************************)
(* Bounded-exhaustive model of language-identifier (and, on the same       *)
(* inputs, locale) parsing.  A state is a token sequence; a step appends   *)
(* one token to a sequence that is still worth extending.  Every state is  *)
(* a test case: it is printed with the specification's answer and replayed *)
(* through the real parser.                                                 *)
(***************************************************************************)
EXTENDS Locale, Alphabets, TLC, Json

CONSTANTS Depth,      \* maximal number of tokens
          FullDepth,  \* sequences shorter than this are extended even when already dead
          Small,      \* TRUE: use the reduced alphabet
          Emit        \* TRUE: print one CASE line per state

VARIABLE toks

Alphabet == IF Small THEN TokensLISmall ELSE TokensLI

Live(ts) == ParseLocTokens(ts).zone # "reject"

Init == toks \in { <<t>> : t \in Alphabet }
Next == /\ Len(toks) < Depth
        /\ Len(toks) < FullDepth \/ Live(toks)
        /\ \E t \in Alphabet : toks' = Append(toks, t)
Spec == Init /\ [][Next]_toks

Input == Join(toks)
RLI  == ParseLITokens(toks)
RLoc == ParseLocTokens(toks)

(* ----- properties of the SPECIFICATION, checked on every state ---------- *)
SplitInverse == Split(Input) = toks

(* C02: exact verdict and error kind; the value is well formed             *)
ErrorKind == ~RLI.ok => (RLI.err = "InvalidLanguage") = ~IsLanguage(toks[1])
ValueOK   == RLI.ok => LIValueOK(RLI.val)
(* every token of an accepted input is accounted for in the value          *)
NothingDropped ==
    RLI.ok => /\ RLI.val.lang = LowerSeq(toks[1])
              /\ \A i \in 2..Len(toks) :
                    \/ LowerSeq(toks[i]) = LowerSeq(RLI.val.script)
                    \/ LowerSeq(toks[i]) = LowerSeq(RLI.val.region)
                    \/ LowerSeq(toks[i]) \in SeqRange(RLI.val.variants)
(* C04/C05 on the spec: canonical text is a strict fixpoint, never longer  *)
RoundTrip == RLI.ok => LET s == SerLI(RLI.val) IN
                /\ StrictCanonicalLI(s)
                /\ ParseLI(s).val = RLI.val
                /\ Len(s) <= Len(Input)
(* C13: on language-identifier inputs the locale grammar is the same       *)
LocaleAgrees ==
    /\ RLI.ok => RLoc.zone = "accept" /\ RLoc.val = LocOfLI(RLI.val)
                 /\ SerLoc(RLoc.val) = SerLI(RLI.val)
    /\ RLoc.zone = "accept" /\ ExtIsEmpty(RLoc.val) => RLI.ok

CaseRec ==
    [k |-> "parse", toks |-> toks,
     li |-> [ok |-> RLI.ok, err |-> RLI.err, val |-> RLI.val, ser |-> SerLI(RLI.val)],
     loc |-> [zone |-> RLoc.zone, why |-> RLoc.why, val |-> RLoc.val, ser |-> SerLoc(RLoc.val)]]
EmitCase == Emit => PrintT("CASE " \o ToJson(CaseRec))
=============================================================================
