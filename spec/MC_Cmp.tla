------------------------------ MODULE MC_Cmp ------------------------------
(***************************************************************************)
(* Equality, ordering and hashing (C12) on values reached along DIFFERENT  *)
(* routes of the object state machine: two operation histories (routes)    *)
(* are built independently from default(); the pair is a test case.        *)
(* E.g. set_variants(<<>>) versus never setting variants, set+remove       *)
(* keyword versus never adding it, add_tag a,b versus b,a.                 *)
(***************************************************************************)
EXTENDS LocaleObject, Ascii, TLC, Json

CONSTANTS MaxLen,
          Start     \* "default": routes start at default(); "rich": at a parsed locale carrying every extension
VARIABLES ra, rb, ph

RouteOps ==
    { OpV("set_variants", <<>>), OpV("set_variants", <<B("valencia")>>),
      OpV("set_variants", <<B("valencia"), B("1996")>>), Op0("clear_variants"),
      OpKV("set_keyword", B("ca"), <<B("buddhist")>>), OpKV("set_keyword", B("ca"), <<>>),
      OpKV("set_keyword", B("ca"), <<B("true")>>), OpK("remove_keyword", B("ca")), Op0("clear_keywords"),
      OpS("set_attribute", B("foo")), OpS("remove_attribute", B("foo")),
      OpS("add_tag", B("a")), OpS("add_tag", B("b")), OpS("remove_tag", B("a")),
      OpS("set_tlang", B("en")), Op0("clear_tlang"),
      OpKV("set_tfield", B("h0"), <<B("hybrid")>>), OpK("remove_tfield", B("h0")),
      OpKV("set_keyword", B("hc"), <<B("h12")>>), OpK("remove_keyword", B("hc")),
      OpS("set_attribute", B("zzz")), OpKV("set_tfield", B("k0"), <<>>), OpK("remove_tfield", B("k0")),
      OpS("set_language", B("en")), OpS("set_language", B("de")), Op0("clear_language"),
      OpS("set_language", B("UND")), OpS("set_language", B("und")),
      OpS("set_script", B("Latn")), Op0("clear_script"), OpS("set_region", B("US")) }

Init == ra = <<>> /\ rb = <<>> /\ ph = 0
Next == \/ /\ ph = 0 /\ Len(ra) < MaxLen
           /\ \E o \in RouteOps : ra' = Append(ra, o)
           /\ UNCHANGED <<rb, ph>>
        \/ /\ ph = 0 /\ ph' = 1 /\ UNCHANGED <<ra, rb>>
        \/ /\ ph = 1 /\ Len(rb) < MaxLen
           /\ \E o \in RouteOps : rb' = Append(rb, o)
           /\ UNCHANGED <<ra, ph>>
Spec == Init /\ [][Next]_<<ra, rb, ph>>

StartText == IF Start = "default" THEN <<>> ELSE B("und-t-en-h0-hybrid-u-foo-ca-buddhist-x-a")
StartVal == IF Start = "default" THEN LocDefault ELSE ParseLoc(StartText).val
VA == RunOps(StartVal, ra)
VB == RunOps(StartVal, rb)

(* the canonical text identifies the value: equal iff same text            *)
TextInjective == (VA = VB) = (SerLoc(VA) = SerLoc(VB))
ValuesOK == ObjOK(VA) /\ ObjOK(VB)
AllRouteOpsSucceed == \A i \in 1..Len(ra) : ApplyOp(RunOps(StartVal, SubSeq(ra, 1, i-1)), ra[i]).res.k = "ok"

CaseRec ==
    [k |-> "cmp", a |-> [start |-> StartText, ops |-> ra], b |-> [start |-> StartText, ops |-> rb],
     eq |-> (VA = VB), sa |-> SerLoc(VA), sb |-> SerLoc(VB), li_ord |-> CmpLI(VA.id, VB.id)]
EmitCase == ph = 1 => PrintT("CASE " \o ToJson(CaseRec))
=============================================================================
