--------------------------- MODULE ImplProofsNeg ---------------------------
(* negative control: not every step consumes a subtag (leaving a loop keeps *)
(* the position), so this is false and the provers must reject it           *)
EXTENDS ImplProofs
THEOREM Bogus == TypeInv /\ Step => k' > k
  BY DEF TypeInv, Pcs, Step, Lang, Li, Ext, U, T, Tl, X, AtEnd, Peek
=============================================================================
