----------------------------- MODULE MC_Object -----------------------------
(***************************************************************************)
(* Model of the Locale object state machine.                               *)
(*   Part  which operations are enabled: "U" (unicode extension), "T"      *)
(*         (transform), "X" (private), "Id" (language identifier fields),  *)
(*         "All" (the product machine on a leaner argument alphabet).      *)
(*   Mode  "edges": the reachable graph; every transition is printed as a  *)
(*                  one-step history starting from the source state's text *)
(*         "hist" : the operation history is part of the state, so every   *)
(*                  distinct history of <= K operations is a state and is   *)
(*                  printed as a test case                                  *)
(*         "check": the reachable graph, invariants only                    *)
(*         "sim"  : like "hist", for tlc -simulate: random behaviours of    *)
(*                  exactly K operations, each printed once when complete   *)
(***************************************************************************)
EXTENDS LocaleObject, Ascii, TLC, Json

CONSTANTS Part, Mode, K, Start

VARIABLES obj, hist

(* ----- argument alphabets: valid, boundary and invalid ------------------- *)
UKeys   == { B("ca"), B("hc"), B("1a"), B("CA"), B("c1"), B("c"), B("cal"), B(""), <<99, 0>> }
UVals   == { <<>>, <<B("buddhist")>>, <<B("true")>>, <<B("islamic"), B("civil")>>, <<B("Gregory")>>,
             <<B("ab")>>, <<B("toolongxx")>>, <<B("a*c")>>, <<B("islamic"), B("true")>>, <<B("gregory"), B("x")>>,
             <<B("True")>>, <<B("islamic"), B("TRUE")>> }
Attrs   == { B("foo"), B("bar"), B("FOO"), B("abcdefgh"), B("ab"), B("abcdefghi"), B("fo-o"), B(""), B("zzz") }
TLangs  == { B("en"), B("en-US"), B("EN-latn-us-valencia"), B("und"), B("x"), B("en-"), B(""), B("de-1996-bavarian"),
             B("abcdefgh-Latn"), B("abcde-419"), B("be-1959acad-tarask") }
TKeys   == { B("h0"), B("k0"), B("H0"), B("0h"), B("h"), B("hh"), B(""), <<104, 0>>, B("h!") }
TVals   == { <<>>, <<B("hybrid")>>, <<B("true")>>, <<B("googlevk"), B("extended")>>, <<B("ab")>>,
             <<B("Windows")>>, <<B("a"), B("b")>>, <<B("hybrid"), B("!")>>, <<B("TRUE")>>, <<B("hybrid"), B("True")>> }
Tags    == { B("a"), B("b"), B("c"), B("d"), B("D"), B("abcdefgh"), B("abcdefghi"), B(""), B("a*") }
Langs   == { B("en"), B("und"), B("EN"), B("abcd"), B("e"), B("abcdefgh"), B("sr") }
Scripts == { B("Latn"), B("latn"), B("Lat"), B("Cyrl"), B("1234") }
Regions == { B("US"), B("us"), B("419"), B("4190"), B("u1") }
VarLists == { <<>>, <<B("valencia")>>, <<B("1996"), B("valencia")>>, <<B("valencia"), B("1996"), B("valencia")>>,
              <<B("abcd")>>, <<B("VALENCIA")>>, <<B("valencia"), B("x")>>, <<B("1996"), B("1996"), B("valencia")>>,
              <<B("1ABC"), B("1abc")>>,
              (* digit-led variants of variant length 5..8 and all-digit ones: a shape of their own in every length-and-   *)
              (* first-byte dispatch                                                                                       *)
              <<B("1959acad")>>, <<B("valencia"), B("12345678"), B("1abcd")>> }
Variants == { B("valencia"), B("1996"), B("abcd"), B("VALENCIA") }

OpsU == { OpKV("set_keyword", k, v) : k \in UKeys, v \in UVals }
        \cup { OpK("remove_keyword", k) : k \in UKeys } \cup { OpK("keyword", k) : k \in UKeys }
        \cup { OpS("set_attribute", a) : a \in Attrs } \cup { OpS("remove_attribute", a) : a \in Attrs }
        \cup { OpS("has_attribute", a) : a \in Attrs }
        \cup { Op0("clear_keywords"), Op0("clear_attributes"), Op0("reparse") }
OpsT == { OpS("set_tlang", l) : l \in TLangs }
        \cup { OpKV("set_tfield", k, v) : k \in TKeys, v \in TVals }
        \cup { OpK("remove_tfield", k) : k \in TKeys } \cup { OpK("tfield", k) : k \in TKeys }
        \cup { Op0("clear_tlang"), Op0("clear_tfields"), Op0("reparse") }
OpsX == { OpS("add_tag", t) : t \in Tags } \cup { OpS("remove_tag", t) : t \in Tags }
        \cup { OpS("has_tag", t) : t \in Tags } \cup { Op0("clear_tags"), Op0("reparse") }
OpsId == { OpS("set_language", l) : l \in Langs } \cup { OpS("set_script", s) : s \in Scripts }
         \cup { OpS("set_region", r) : r \in Regions } \cup { OpV("set_variants", v) : v \in VarLists }
         \cup { OpS("has_variant", v) : v \in Variants }
         \cup { Op0("clear_language"), Op0("clear_script"), Op0("clear_region"), Op0("clear_variants"), Op0("reparse") }

(* "grown" containers: valid arguments only, but enough of them that every   *)
(* container reaches 5..7 members (thresholds, binary-search positions in    *)
(* longer vectors); the reachable graph is small because each part is alone  *)
GAttrs == { B("aaa"), B("bbbbbbbb"), B("c3c"), B("ddd"), B("eee1"), B("fff"), B("ggg"), B("h1h1h"), B("iii"), B("zzz") }
OpsGU == { OpS("set_attribute", a) : a \in GAttrs } \cup { OpS("remove_attribute", a) : a \in GAttrs }
         \cup { OpS("has_attribute", a) : a \in GAttrs }
GKeys == { B("ca"), B("cb"), B("1a"), B("hc"), B("nu"), B("zz"), B("ab"), B("kf"), B("9z"), B("mm") }
OpsGK == { OpKV("set_keyword", k, v) : k \in GKeys, v \in { <<B("x1x")>> } }
         \cup { OpK("remove_keyword", k) : k \in GKeys } \cup { OpK("keyword", k) : k \in GKeys }
GTKeys == { B("a0"), B("b1"), B("h0"), B("k0"), B("z9"), B("c2"), B("d3"), B("m0"), B("s5"), B("t7") }
OpsGT == { OpKV("set_tfield", k, v) : k \in GTKeys, v \in { <<B("hybrid")>> } }
         \cup { OpK("remove_tfield", k) : k \in GTKeys } \cup { OpK("tfield", k) : k \in GTKeys }
GTags == { B("a"), B("b"), B("c"), B("d"), B("e5"), B("f"), B("g"), B("h"), B("i9"), B("zzzzzzzz") }
OpsGX == { OpS("add_tag", x) : x \in GTags } \cup { OpS("remove_tag", x) : x \in GTags } \cup { OpS("has_tag", x) : x \in GTags }

(* the product machine: every operation, two or three arguments each        *)
OpsAll ==
    { OpKV("set_keyword", k, v) : k \in {B("ca"), B("hc"), B("c1")}, v \in {<<>>, <<B("buddhist")>>, <<B("true")>>, <<B("ab")>>} }
    \cup { OpK("remove_keyword", k) : k \in {B("ca"), B("hc")} }
    \cup { OpS("set_attribute", a) : a \in {B("foo"), B("bar"), B("ab")} }
    \cup { OpS("remove_attribute", a) : a \in {B("foo"), B("bar")} }
    \cup { OpS("set_tlang", l) : l \in {B("en"), B("de-AT"), B("x")} }
    \cup { OpKV("set_tfield", k, v) : k \in {B("h0"), B("k0"), B("hh")}, v \in {<<>>, <<B("hybrid")>>} }
    \cup { OpK("remove_tfield", k) : k \in {B("h0"), B("k0")} }
    \cup { OpS("add_tag", t) : t \in {B("a"), B("b"), B("")} } \cup { OpS("remove_tag", t) : t \in {B("a"), B("b")} }
    \cup { OpS("set_language", l) : l \in {B("en"), B("abcd")} } \cup { OpS("set_script", s) : s \in {B("Latn")} }
    \cup { OpS("set_region", r) : r \in {B("US")} }
    \cup { OpV("set_variants", v) : v \in {<<B("valencia")>>, <<B("1996"), B("valencia")>>, <<B("abcd")>>} }
    \cup { Op0("clear_keywords"), Op0("clear_attributes"), Op0("clear_tlang"), Op0("clear_tfields"),
           Op0("clear_tags"), Op0("clear_language"), Op0("clear_script"), Op0("clear_region"),
           Op0("clear_variants"), Op0("reparse") }

(* leaner alphabets for history mode, where the number of cases is |Ops|^K: *)
(* still one valid, one boundary and one invalid (or valid-then-invalid)     *)
(* argument per position                                                     *)
HOpsU == { OpKV("set_keyword", k, v) : k \in {B("ca"), B("HC"), B("c1")}, v \in {<<>>, <<B("buddhist")>>, <<B("gregory"), B("x")>>} }
         \cup { OpK("remove_keyword", k) : k \in {B("ca"), B("hc")} } \cup { OpK("keyword", k) : k \in {B("ca")} }
         \cup { OpS("set_attribute", a) : a \in {B("foo"), B("bar"), B("zzz"), B("ab")} }
         \cup { OpS("remove_attribute", a) : a \in {B("foo"), B("bar"), B("zzz")} }
         \cup { Op0("clear_keywords"), Op0("clear_attributes") }
HOpsT == { OpS("set_tlang", l) : l \in {B("en"), B("abcdefgh-Latn"), B("x")} }
         \cup { OpKV("set_tfield", k, v) : k \in {B("h0"), B("k0"), B("hh")}, v \in {<<>>, <<B("hybrid")>>, <<B("hybrid"), B("!")>>} }
         \cup { OpK("remove_tfield", k) : k \in {B("h0"), B("k0")} } \cup { OpK("tfield", k) : k \in {B("k0")} }
         \cup { Op0("clear_tlang"), Op0("clear_tfields") }
HOpsX == { OpS("add_tag", t) : t \in {B("a"), B("b"), B("c"), B("D"), B("")} }
         \cup { OpS("remove_tag", t) : t \in {B("a"), B("b"), B("c"), B("d")} }
         \cup { OpS("has_tag", t) : t \in {B("c")} } \cup { Op0("clear_tags") }
HOpsId == { OpS("set_language", l) : l \in {B("de"), B("UND"), B("abcd")} } \cup { OpS("set_script", x) : x \in {B("cyrl"), B("Lat")} }
          \cup { OpS("set_region", r) : r \in {B("419"), B("u1")} }
          \cup { OpV("set_variants", v) : v \in {<<>>, <<B("1996"), B("1996"), B("valencia")>>, <<B("valencia"), B("1ABC"), B("valencia")>>, <<B("abcd")>>,
                                                   <<B("1959acad"), B("12345")>>} }
          \cup { OpS("has_variant", v) : v \in {B("1996")} }
          \cup { Op0("clear_language"), Op0("clear_script"), Op0("clear_region"), Op0("clear_variants") }

Ops == IF Mode = "hist"
       THEN CASE Part = "U" -> HOpsU [] Part = "T" -> HOpsT [] Part = "X" -> HOpsX [] Part = "Id" -> HOpsId [] Part = "All" -> OpsAll
       ELSE CASE Part = "U" -> OpsU [] Part = "T" -> OpsT [] Part = "X" -> OpsX [] Part = "Id" -> OpsId [] Part = "All" -> OpsAll
              [] Part = "GU" -> OpsGU [] Part = "GK" -> OpsGK [] Part = "GT" -> OpsGT [] Part = "GX" -> OpsGX

(* bound the private-tag bag (it is the only unbounded component)           *)
(* GX: ten tags, each at most once (the small X part explores repeated tags)   *)
Bounded(v) == IF Part = "GX" THEN \A p, q \in 1..Len(v.priv) : p # q => v.priv[p] # v.priv[q]
              ELSE Len(v.priv) <= 3

(* start values: default(), or a parsed locale that already carries every   *)
(* kind of extension                                                        *)
StartText == IF Start = "default" THEN <<>>
             ELSE B("en-Latn-US-valencia-t-de-h0-hybrid-u-foo-ca-buddhist-x-a-d")
StartVal == IF Start = "default" THEN LocDefault ELSE ParseLoc(StartText).val

Init == obj = StartVal /\ hist = <<>>

StepCase(o) == [k |-> "hist", start |-> SerLoc(obj), startval |-> obj, steps |-> <<StepRec(obj, o)>>]

NextEdges == \E o \in Ops :
    LET r == ApplyOp(obj, o) IN
    /\ Bounded(r.obj)
    /\ obj' = r.obj
    /\ hist' = <<>>
    /\ (Mode = "edges") => PrintT("CASE " \o ToJson(StepCase(o)))

NextHist == /\ Len(hist) < K
            /\ \E o \in Ops :
                 LET r == ApplyOp(obj, o) IN
                 /\ Bounded(r.obj)
                 /\ obj' = r.obj
                 /\ hist' = Append(hist, o)

Next == IF Mode \in {"hist", "sim"} THEN NextHist ELSE NextEdges
Spec == Init /\ [][Next]_<<obj, hist>>

(* ----- invariants -------------------------------------------------------- *)
TypeOK == ObjOK(obj)
RoundTrip == ObjRoundTrip(obj)
ExtRoundTrip == ObjExtRoundTrip(obj)
(* a failed call leaves the value unchanged; a getter never changes it      *)
Getters == {"has_variant", "keyword", "has_attribute", "tfield", "has_tag"}
ErrorsAndGettersArePure ==
    \A o \in Ops : LET r == ApplyOp(obj, o) IN
        (r.res.k = "err" \/ o.op \in Getters) => r.obj = obj
(* reparse is the identity on every reachable state (C05)                   *)
ReparseIsNoOp == LET r == ApplyOp(obj, Op0("reparse")) IN r.obj = obj /\ r.res = OkB(TRUE)

HistCase == [k |-> "hist", start |-> StartText, startval |-> StartVal, steps |-> StepsOf(StartVal, hist)]
EmitHist == ((Mode = "hist" /\ hist # <<>>) \/ (Mode = "sim" /\ Len(hist) = K))
               => PrintT("CASE " \o ToJson(HistCase))
=============================================================================
