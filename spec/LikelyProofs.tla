---------------------------- MODULE LikelyProofs ----------------------------
(***************************************************************************)
(* Machine-checked proofs (TLAPS) that the C07 / C08 laws hold for the     *)
(* likely-subtags algorithms of Likely.tla over EVERY table -- any set of  *)
(* keys, any subtag universe -- not only the small universes TLC can       *)
(* enumerate (MC_LikelyLaws) or the CLDR table (MC_Cldr, MC_Sweep).        *)
(* The only assumption on the table is the one the CLDR data satisfies and *)
(* MC_Cldr / Tables.tla check: every value is a full triple.               *)
(***************************************************************************)
EXTENDS Likely, NaturalsInduction, TLAPS

TableFull(T) == \A k \in DOMAIN T :
                   /\ T[k] = <<T[k][1], T[k][2], T[k][3]>>
                   /\ T[k][1] # UndL /\ T[k][2] # None /\ T[k][3] # None

(* ----- FirstHit returns 0 or the index of a key of the table ------------- *)
LEMMA FirstHitSpec ==
    ASSUME NEW T, NEW c, Len(c) \in Nat
    PROVE  LET h == FirstHit(T, c) IN
           \/ h = 0 /\ \A i \in 1..Len(c) : ~Has(T, c[i])
           \/ h \in 1..Len(c) /\ Has(T, c[h])
<1> DEFINE hits == { i \in 1..Len(c) : Has(T, c[i]) }
<1>1 CASE hits = {}
  BY <1>1 DEF FirstHit
<1>2 CASE hits # {}
  <2> DEFINE P(i) == i \in hits
  <2>1 PICK n \in hits : TRUE
    BY <1>2
  <2>2 n \in Nat /\ P(n)
    BY <2>1
  <2>3 PICK m \in Nat : P(m) /\ \A k \in 0..m-1 : ~P(k)
    <3> HIDE DEF P
    <3> QED
      BY <2>2, SmallestNatural, Isa
  <2>4 \A j \in hits : m <= j
    BY <2>3
  <2>5 \E i \in hits : \A j \in hits : i <= j
    BY <2>3, <2>4
  <2>6 (CHOOSE i \in hits : \A j \in hits : i <= j) \in hits
    BY <2>5
  <2> QED
    BY <1>2, <2>6 DEF FirstHit
<1> QED
  BY <1>1, <1>2

LEMMA CandidatesLen ==
    ASSUME NEW l, NEW s, NEW r, NEW fb
    PROVE  Len(Candidates(l, s, r, fb)) \in Nat
  BY DEF Candidates

(* ----- C07 ----------------------------------------------------------------- *)
THEOREM FalseMeansUnchanged ==
    ASSUME NEW T, NEW l, NEW s, NEW r, NEW fb
    PROVE  LET m == MaximizeF(T, l, s, r, fb) IN ~m[1] => m[2] = <<l, s, r>>
  BY DEF MaximizeF

THEOREM OnlyAdds ==
    ASSUME NEW T, NEW l, NEW s, NEW r, NEW fb
    PROVE  LET m == MaximizeF(T, l, s, r, fb) IN m[1] => Keeps(<<l, s, r>>, m[2])
  BY DEF MaximizeF, Override, Keeps

THEOREM FillsAllThree ==
    ASSUME NEW T, TableFull(T), NEW l, NEW s, NEW r, NEW fb
    PROVE  LET m == MaximizeF(T, l, s, r, fb) IN
           m[1] => /\ IsFull(m[2][1], m[2][2], m[2][3])
                   /\ m[2] = <<m[2][1], m[2][2], m[2][3]>>
<1> DEFINE c == Candidates(l, s, r, fb)
           h == FirstHit(T, c)
<1>1 Len(c) \in Nat
  BY CandidatesLen
<1>2 h = 0 \/ (h \in 1..Len(c) /\ Has(T, c[h]))
  BY <1>1, FirstHitSpec
<1>3 CASE IsFull(l, s, r)
  BY <1>3 DEF MaximizeF
<1>4 CASE ~IsFull(l, s, r) /\ h = 0
  BY <1>4 DEF MaximizeF
<1>5 CASE ~IsFull(l, s, r) /\ h # 0
  <2>1 c[h] \in DOMAIN T
    BY <1>2, <1>5 DEF Has
  <2>2 MaximizeF(T, l, s, r, fb) = <<TRUE, Override(T[c[h]], l, s, r)>>
    BY <1>5 DEF MaximizeF
  <2> QED
    BY <2>1, <2>2 DEF TableFull, Override, IsFull
<1> QED
  BY <1>3, <1>4, <1>5

THEOREM MaximizeIdempotent ==
    ASSUME NEW T, TableFull(T), NEW l, NEW s, NEW r, NEW fb
    PROVE  LET m == MaximizeF(T, l, s, r, fb) IN
           m[1] => MaximizeF(T, m[2][1], m[2][2], m[2][3], fb) = <<FALSE, m[2]>>
<1> DEFINE m == MaximizeF(T, l, s, r, fb)
<1>1 m[1] => IsFull(m[2][1], m[2][2], m[2][3]) /\ m[2] = <<m[2][1], m[2][2], m[2][3]>>
  BY FillsAllThree
<1> QED
  BY <1>1 DEF MaximizeF

(* ----- C08 ----------------------------------------------------------------- *)
THEOREM MinFalseMeansUnchanged ==
    ASSUME NEW T, NEW l, NEW s, NEW r, NEW fb
    PROVE  LET n == MinimizeF(T, l, s, r, fb) IN ~n[1] => n[2] = <<l, s, r>>
  BY DEF MinimizeF

(* the minimized form maximizes back to the maximized original, uses only its *)
(* subtags, and carries at most one of script / region                         *)
THEOREM MinPreservesMeaning ==
    ASSUME NEW T, NEW l, NEW s, NEW r, NEW fb
    PROVE  LET n == MinimizeF(T, l, s, r, fb)
               full == MaximizeF(T, l, s, r, fb)[2]
           IN n[1] => /\ MaximizeF(T, n[2][1], n[2][2], n[2][3], fb)[2] = full
                      /\ n[2][1] = full[1]
                      /\ n[2][2] \in {None, full[2]} /\ n[2][3] \in {None, full[3]}
                      /\ n[2][2] = None \/ n[2][3] = None
  BY DEF MinimizeF

(* what minimize returns depends on the input only through its maximized form: *)
(* the cascade below is the whole of MinimizeF once the maximized form is known *)
Cascade(T, m, fb) ==
    LET try(tl, ts, tr) == LET x == MaximizeF(T, tl, ts, tr, fb) IN x[1] /\ x[2] = m IN
    IF try(m[1], None, None) THEN <<TRUE, <<m[1], None, None>>>>
    ELSE IF m[3] # None /\ try(m[1], None, m[3]) THEN <<TRUE, <<m[1], None, m[3]>>>>
    ELSE IF m[2] # None /\ try(m[1], m[2], None) THEN <<TRUE, <<m[1], m[2], None>>>>
    ELSE <<FALSE, m>>

LEMMA MinIsCascade ==
    ASSUME NEW T, NEW l, NEW s, NEW r, NEW fb
    PROVE  LET n == MinimizeF(T, l, s, r, fb)
               m0 == MaximizeF(T, l, s, r, fb)
           IN n[1] => n = Cascade(T, m0[2], fb)
  BY DEF MinimizeF, Cascade

LEMMA MaxShape ==
    ASSUME NEW T, NEW a, NEW b, NEW c, NEW fb
    PROVE  LET x == MaximizeF(T, a, b, c, fb) IN x = <<x[1], x[2]>> /\ x[1] \in BOOLEAN
  BY DEF MaximizeF

LEMMA CascadeSound ==
    ASSUME NEW T, NEW m, NEW fb
    PROVE  LET k == Cascade(T, m, fb) IN
           k[1] => /\ LET x == MaximizeF(T, k[2][1], k[2][2], k[2][3], fb) IN x[1] /\ x[2] = m
                   /\ k[2][2] = None \/ k[2][3] = None
  BY DEF Cascade

LEMMA MinUnfold ==
    ASSUME NEW T, NEW a, NEW b, NEW c, NEW fb,
           IsFull(a, b, c) \/ MaximizeF(T, a, b, c, fb)[1]
    PROVE  MinimizeF(T, a, b, c, fb) =
             (LET k == Cascade(T, MaximizeF(T, a, b, c, fb)[2], fb) IN IF k[1] THEN k ELSE <<FALSE, <<a, b, c>>>>)
  BY DEF MinimizeF, Cascade

(* minimize is idempotent, and minimize after maximize equals minimize           *)
THEOREM MinimizeIdempotent ==
    ASSUME NEW T, NEW l, NEW s, NEW r, NEW fb
    PROVE  LET n == MinimizeF(T, l, s, r, fb) IN
           n[1] => MinimizeF(T, n[2][1], n[2][2], n[2][3], fb) = n
<1> DEFINE n == MinimizeF(T, l, s, r, fb)
           m == MaximizeF(T, l, s, r, fb)[2]
           x == MaximizeF(T, n[2][1], n[2][2], n[2][3], fb)
<1> SUFFICES ASSUME n[1] PROVE MinimizeF(T, n[2][1], n[2][2], n[2][3], fb) = n
  OBVIOUS
<1>1 n = Cascade(T, m, fb)
  BY MinIsCascade
<1>2 x[1] /\ x[2] = m
  BY <1>1, CascadeSound
<1>3 x[1] = TRUE
  BY <1>2, MaxShape
<1>4 MinimizeF(T, n[2][1], n[2][2], n[2][3], fb) =
        (LET k == Cascade(T, x[2], fb) IN IF k[1] THEN k ELSE <<FALSE, <<n[2][1], n[2][2], n[2][3]>>>>)
  BY <1>3, MinUnfold
<1> QED
  BY <1>1, <1>2, <1>4

THEOREM MinimizeAfterMaximize ==
    ASSUME NEW T, TableFull(T), NEW l, NEW s, NEW r, NEW fb
    PROVE  LET n == MinimizeF(T, l, s, r, fb)
               m == MaximizeF(T, l, s, r, fb)
           IN (m[1] /\ n[1]) => MinimizeF(T, m[2][1], m[2][2], m[2][3], fb) = n
<1> DEFINE n == MinimizeF(T, l, s, r, fb)
           m == MaximizeF(T, l, s, r, fb)
<1> SUFFICES ASSUME m[1], n[1] PROVE MinimizeF(T, m[2][1], m[2][2], m[2][3], fb) = n
  OBVIOUS
<1>1 IsFull(m[2][1], m[2][2], m[2][3]) /\ m[2] = <<m[2][1], m[2][2], m[2][3]>>
  BY FillsAllThree
<1>2 n = Cascade(T, m[2], fb)
  BY MinIsCascade
<1>3 MaximizeF(T, m[2][1], m[2][2], m[2][3], fb) = <<FALSE, m[2]>>
  BY MaximizeIdempotent
<1>4 MinimizeF(T, m[2][1], m[2][2], m[2][3], fb) =
        (LET k == Cascade(T, m[2], fb) IN IF k[1] THEN k ELSE <<FALSE, <<m[2][1], m[2][2], m[2][3]>>>>)
  BY <1>1, <1>3, MinUnfold
<1> QED
  BY <1>2, <1>4

(* the result is the FIRST of {language, language-region, language-script} that   *)
(* maximizes back                                                                 *)
THEOREM MinimizeTakesTheFirst ==
    ASSUME NEW T, NEW l, NEW s, NEW r, NEW fb
    PROVE  LET n == MinimizeF(T, l, s, r, fb)
               full == MaximizeF(T, l, s, r, fb)[2]
               ok(a, b, c) == LET y == MaximizeF(T, a, b, c, fb) IN y[1] /\ y[2] = full
           IN n[1] => /\ ok(full[1], None, None) => n[2] = <<full[1], None, None>>
                      /\ (~ok(full[1], None, None) /\ full[3] # None /\ ok(full[1], None, full[3]))
                            => n[2] = <<full[1], None, full[3]>>
  BY DEF MinimizeF
=============================================================================
