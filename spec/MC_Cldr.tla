------------------------------ MODULE MC_Cldr ------------------------------
(***************************************************************************)
(* The real CLDR data.  Mode "keys": every likelySubtags key is a state.   *)
(* Mode "closure": for every language (and und, and an unknown one) every  *)
(* combination of {absent, each script keyed with it, two other known      *)
(* scripts, an unknown script} x the same for regions.  Mode "dir": every  *)
(* CLDR layout locale, plus script/language combinations.                  *)
(* Each state is checked against the laws on the specification and printed *)
(* as a case with the set of answers the properties allow.                 *)
(***************************************************************************)
EXTENDS Cldr

CONSTANT Mode
VARIABLES l, s, r, ph, name

vars == <<l, s, r, ph, name>>

LangsOfKeys == { k[1] : k \in KeySet }
ScriptsKeyedWith(x) == { k[2] : k \in { q \in KeySet : q[1] = x /\ q[2] # None } }
RegionsKeyedWith(x) == { k[3] : k \in { q \in KeySet : q[1] = x /\ q[3] # None } }
SFor(x) == {None, "Latn", "Arab", "Zzzz", "Qaaa"} \cup ScriptsKeyedWith(x)
RFor(x) == {None, "US", "IN", "ZZ", "XK", "001", "999"} \cup RegionsKeyedWith(x)

InitKeys == \E k \in KeySet : l = k[1] /\ s = k[2] /\ r = k[3] /\ ph = 1 /\ name = ""
InitClosure == l \in LangsOfKeys \cup {"zz", "qqq", "abcdefgh"} /\ s = None /\ r = None /\ ph = 0 /\ name = ""
NextClosure == /\ ph = 0 /\ ph' = 1 /\ UNCHANGED <<l, name>>
               /\ s' \in SFor(l) /\ r' \in RFor(l)

(* direction: the CLDR locales themselves, then language x script probes    *)
InitDir == \/ \E p \in LayoutLocales :
                 LET t == Triple(p[1]) IN l = t[1] /\ s = t[2] /\ r = t[3] /\ ph = 1 /\ name = p[1]
           \/ /\ l \in D.rtlLangs \cup {"en", "zh", "mn", "und", "zz"} /\ ph = 0 /\ s = None /\ r = None /\ name = ""
NextDir == /\ ph = 0 /\ ph' = 1 /\ UNCHANGED <<l, name>>
           /\ s' \in ListedScripts \cup {None, "Zzzz", "Thaa", "Hebr"}
           /\ r' \in {None, "US", "PK", "AF", "CN", "ZZ"}

Init == CASE Mode = "keys" -> InitKeys [] Mode = "closure" -> InitClosure [] Mode = "dir" -> InitDir
Next == CASE Mode = "keys" -> FALSE /\ UNCHANGED vars
          [] Mode = "closure" -> NextClosure
          [] Mode = "dir" -> NextDir
Spec == Init /\ [][Next]_vars

(* ----- the data is what the algorithms assume (checked once) ------------- *)
DataOK == /\ KeysFaithful /\ ValuesFull /\ ValuesConsistent /\ OneDirectionPerScript
          /\ D.ltr # {} /\ D.rtl # {} /\ D.rtlLangs # {} /\ Cardinality(KeySet) > 8000
ASSUME DataOK

(* C06: every key (but bare und) maximizes to its value                     *)
KeyMaximizesToValue ==
    (Mode = "keys" /\ <<l, s, r>> # <<UndL, None, None>>) => Maximize(T, l, s, r) = <<TRUE, T[<<l, s, r>>]>>
(* C07 / C08 on real data                                                   *)
Laws == ph = 1 => /\ LawsMax(T, l, s, r, FALSE) /\ LawsMax(T, l, s, r, TRUE)
                  /\ LawsMin(T, l, s, r, FALSE) /\ NeverLonger(T, l, s, r, FALSE)
(* C14: the specification's direction is one the property allows, with and  *)
(* without likely subtags; on CLDR locales the clauses agree with CLDR      *)
Cldr1 == IF name = "" THEN <<>> ELSE << (CHOOSE p \in LayoutLocales : p[1] = name)[2] >>
DirOK == (Mode = "dir" /\ ph = 1) =>
    /\ Direction(T, D, l, s, r, TRUE) \in AllowedDir(l, s, r, TRUE, Cldr1)
    /\ Direction(T, D, l, s, r, FALSE) \in AllowedDir(l, s, r, FALSE, Cldr1)
    /\ name # "" => /\ Direction(T, D, l, s, r, TRUE) = Cldr1[1]
                    /\ (s \in ListedScripts \/ l \notin D.rtlLangs) => AllowedDir(l, s, r, FALSE, Cldr1) = {Cldr1[1]}

IdText == IF name # "" THEN name ELSE KeyText(<<l, s, r>>)
LikelyCase == [k |-> "likely", l |-> l, s |-> s, r |-> r,
               max |-> SetToSeq(AllowedMax(T, l, s, r)), min |-> SetToSeq(AllowedMin(T, l, s, r))]
DirCase == [k |-> "dir", id |-> IdText, on |-> SetToSeq(AllowedDir(l, s, r, TRUE, Cldr1)),
            off |-> SetToSeq(AllowedDir(l, s, r, FALSE, Cldr1)),
            why |-> IF name # "" THEN "cldr-layout-locale" ELSE "probe"]
EmitCase == ph = 1 => PrintT("CASE " \o ToJson(IF Mode = "dir" THEN DirCase ELSE LikelyCase))
=============================================================================
