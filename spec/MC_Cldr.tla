------------------------------ MODULE MC_Cldr ------------------------------
(***************************************************************************)
(* The real CLDR data.  Mode "keys": every likelySubtags key is a state.   *)
(* Mode "closure": for every language (and und, and an unknown one) every  *)
(* combination of {absent, each script keyed with it, two other known      *)
(* scripts, an unknown script} x the same for regions.  Mode "dir": every  *)
(* CLDR layout locale, plus script/language combinations.                  *)
(* Each state is checked against the laws on the specification and printed *)
(* as a case with the set of answers the properties allow.                 *)
(***************************************************************************)
EXTENDS Cldr

CONSTANT Mode
VARIABLES cl, cs, cr, ph, name

vars == <<cl, cs, cr, ph, name>>

LangsOfKeys == { k[1] : k \in KeySet }
ScriptsKeyedWith(x) == { k[2] : k \in { q \in KeySet : q[1] = x /\ q[2] # None } }
RegionsKeyedWith(x) == { k[3] : k \in { q \in KeySet : q[1] = x /\ q[3] # None } }
(* words the library's own sources mention (VERIF_DICT_LIKELY: by the production they fit, canonical case): a code the     *)
(* implementation treats specially -- an alias table, a legacy or typographic-variant code -- is not in the CLDR data     *)
DictLk == JsonDeserialize(IOEnv.VERIF_DICT_LIKELY)
DictL == { DictLk.langs[n] : n \in 1..Len(DictLk.langs) }
DictS == { DictLk.scripts[n] : n \in 1..Len(DictLk.scripts) }
DictR == { DictLk.regions[n] : n \in 1..Len(DictLk.regions) }
DictProbe(x) == x \in {UndL, "en", "ar", "zz"} \cup DictL
SFor(x) == {None, "Latn", "Arab", "Zzzz", "Qaaa"} \cup ScriptsKeyedWith(x) \cup (IF DictProbe(x) THEN DictS ELSE {})
RFor(x) == {None, "US", "IN", "ZZ", "XK", "001", "999"} \cup RegionsKeyedWith(x) \cup (IF DictProbe(x) THEN DictR ELSE {})

InitKeys == \E k \in KeySet : cl = k[1] /\ cs = k[2] /\ cr = k[3] /\ ph = 1 /\ name = ""
InitClosure == cl \in LangsOfKeys \cup {"zz", "qqq", "abcdefgh"} \cup DictL /\ cs = None /\ cr = None /\ ph = 0 /\ name = ""
NextClosure == /\ ph = 0 /\ ph' = 1 /\ UNCHANGED <<cl, name>>
               /\ cs' \in SFor(cl) /\ cr' \in RFor(cl)

(* direction: the CLDR locales themselves, then language x script probes    *)
InitDir == \/ \E p \in LayoutLocales :
                 LET t == Triple(p[1]) IN cl = t[1] /\ cs = t[2] /\ cr = t[3] /\ ph = 1 /\ name = p[1]
           \/ /\ cl \in D.rtlLangs \cup {"en", "zh", "mn", "und", "zz"} \cup DictL /\ ph = 0 /\ cs = None /\ cr = None /\ name = ""
NextDir == /\ ph = 0 /\ ph' = 1 /\ UNCHANGED <<cl, name>>
           /\ cs' \in ListedScripts \cup {None, "Zzzz", "Thaa", "Hebr"} \cup DictS
           /\ cr' \in {None, "US", "PK", "AF", "CN", "ZZ"} \cup (IF DictProbe(cl) THEN DictR ELSE {})

Init == CASE Mode = "keys" -> InitKeys [] Mode = "closure" -> InitClosure [] Mode = "dir" -> InitDir
Next == CASE Mode = "keys" -> FALSE /\ UNCHANGED vars
          [] Mode = "closure" -> NextClosure
          [] Mode = "dir" -> NextDir
Spec == Init /\ [][Next]_vars

(* ----- the data is what the algorithms assume (checked once) ------------- *)
DataOK == /\ KeysFaithful /\ ValuesFull /\ ValuesConsistent /\ OneDirectionPerScript
          /\ D.ltr # {} /\ D.rtl # {} /\ D.rtlLangs # {} /\ Cardinality(KeySet) > 8000
ASSUME DataOK

(* C06: every key (but bare und) maximizes to its value                     *)
KeyMaximizesToValue ==
    (Mode = "keys" /\ <<cl, cs, cr>> # <<UndL, None, None>>) => Maximize(T, cl, cs, cr) = <<TRUE, T[<<cl, cs, cr>>]>>
(* C07 / C08 on real data                                                   *)
Laws == ph = 1 => /\ \A fb \in {FbNone, FbAll, {"uscript", "uregion", "bare"}} : LawsMax(T, cl, cs, cr, fb)
                  /\ LawsMin(T, cl, cs, cr, FbNone) /\ NeverLonger(T, cl, cs, cr, FbNone)
(* C14: the specification's direction is one the property allows, with and  *)
(* without likely subtags; on CLDR locales the clauses agree with CLDR      *)
Cldr1 == IF name = "" THEN <<>> ELSE << (CHOOSE p \in LayoutLocales : p[1] = name)[2] >>
DirOK == (Mode = "dir" /\ ph = 1) =>
    /\ Direction(T, D, cl, cs, cr, TRUE) \in AllowedDir(cl, cs, cr, TRUE, Cldr1)
    /\ Direction(T, D, cl, cs, cr, FALSE) \in AllowedDir(cl, cs, cr, FALSE, Cldr1)
    /\ name # "" => /\ Direction(T, D, cl, cs, cr, TRUE) = Cldr1[1]
                    /\ (cs \in ListedScripts \/ cl \notin D.rtlLangs) => AllowedDir(cl, cs, cr, FALSE, Cldr1) = {Cldr1[1]}

IdText == IF name # "" THEN name ELSE KeyText(<<cl, cs, cr>>)
LikelyCase == [k |-> "likely", l |-> cl, s |-> cs, r |-> cr,
               max |-> SetToSeq(AllowedMax(T, cl, cs, cr)), min |-> SetToSeq(AllowedMin(T, cl, cs, cr))]
DirCase == [k |-> "dir", id |-> IdText, on |-> SetToSeq(AllowedDir(cl, cs, cr, TRUE, Cldr1)),
            off |-> SetToSeq(AllowedDir(cl, cs, cr, FALSE, Cldr1)),
            why |-> IF name # "" THEN "cldr-layout-locale" ELSE "probe"]
EmitCase == ph = 1 => PrintT("CASE " \o ToJson(IF Mode = "dir" THEN DirCase ELSE LikelyCase))
=============================================================================
