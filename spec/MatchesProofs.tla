--------------------------- MODULE MatchesProofs ---------------------------
(***************************************************************************)
(* The laws of property C11, proved with TLAPS for the specification's     *)
(* MatchesLI / MatchesLoc over ALL values (MC_Matches checks them on 108   *)
(* identifiers squared).  A language identifier value is any record with   *)
(* the four fields.                                                        *)
(***************************************************************************)
EXTENDS Locale, TLAPS

IsLI(v) == v = [lang |-> v.lang, script |-> v.script, region |-> v.region, variants |-> v.variants]

THEOREM MatchSymmetric ==
    ASSUME NEW a, NEW b, NEW ra \in BOOLEAN, NEW rb \in BOOLEAN
    PROVE  MatchesLI(a, b, ra, rb) = MatchesLI(b, a, rb, ra)
  BY DEF MatchesLI, FieldMatch

THEOREM MatchReflexive ==
    ASSUME NEW a, NEW ra \in BOOLEAN, NEW rb \in BOOLEAN
    PROVE  MatchesLI(a, a, ra, rb)
  BY DEF MatchesLI, FieldMatch

(* with both flags off it is equality                                       *)
THEOREM MatchNoRangeIsEquality ==
    ASSUME NEW a, NEW b, IsLI(a), IsLI(b)
    PROVE  MatchesLI(a, b, FALSE, FALSE) <=> a = b
  BY DEF MatchesLI, FieldMatch, IsLI

(* switching a flag on never turns a match into a mismatch                  *)
THEOREM MatchMonotone ==
    ASSUME NEW a, NEW b, NEW ra \in BOOLEAN, NEW rb \in BOOLEAN, NEW ra2 \in BOOLEAN, NEW rb2 \in BOOLEAN,
           ra => ra2, rb => rb2, MatchesLI(a, b, ra, rb)
    PROVE  MatchesLI(a, b, ra2, rb2)
  BY DEF MatchesLI, FieldMatch

(* field by field: equal, or the side flagged as a range has the field empty *)
THEOREM MatchDefinition ==
    ASSUME NEW a, NEW b, NEW ra \in BOOLEAN, NEW rb \in BOOLEAN
    PROVE  MatchesLI(a, b, ra, rb) <=>
             /\ a.lang = b.lang \/ (ra /\ a.lang = Und) \/ (rb /\ b.lang = Und)
             /\ a.script = b.script \/ (ra /\ a.script = <<>>) \/ (rb /\ b.script = <<>>)
             /\ a.region = b.region \/ (ra /\ a.region = <<>>) \/ (rb /\ b.region = <<>>)
             /\ a.variants = b.variants \/ (ra /\ a.variants = <<>>) \/ (rb /\ b.variants = <<>>)
  BY DEF MatchesLI, FieldMatch

(* Locale: private-use subtags on either side never match; otherwise the     *)
(* language-identifier result, whatever -u- / -t- hold                       *)
THEOREM LocalePrivateRule ==
    ASSUME NEW a, NEW b, NEW ra \in BOOLEAN, NEW rb \in BOOLEAN
    PROVE  /\ (a.priv # <<>> \/ b.priv # <<>>) => ~MatchesLoc(a, b, ra, rb)
           /\ (a.priv = <<>> /\ b.priv = <<>>) => (MatchesLoc(a, b, ra, rb) <=> MatchesLI(a.id, b.id, ra, rb))
  BY DEF MatchesLoc

IsLoc(v) == v = [id |-> v.id, attrs |-> v.attrs, kw |-> v.kw, tlang |-> v.tlang, tf |-> v.tf, priv |-> v.priv]
THEOREM LocaleIgnoresUAndT ==
    ASSUME NEW a, IsLoc(a), NEW b, NEW ra \in BOOLEAN, NEW rb \in BOOLEAN, NEW x, NEW y, NEW z, NEW w
    PROVE  MatchesLoc([a EXCEPT !.attrs = x, !.kw = y, !.tlang = z, !.tf = w], b, ra, rb) = MatchesLoc(a, b, ra, rb)
  BY DEF MatchesLoc, IsLoc
=============================================================================
