----------------------------- MODULE MC_Parts -----------------------------
(***************************************************************************)
(* from_parts / into_parts (C17): subtags in any letter case, variants in  *)
(* any order with repetitions, up to MaxV variants.                        *)
(***************************************************************************)
EXTENDS Locale, Ascii, TLC, Json

CONSTANT MaxV
VARIABLES l, s, r, vs

Langs   == { B("en"), B("UND"), B("abcde") }
Scripts == { <<>>, B("latn"), B("CYRL") }
Regions == { <<>>, B("us"), B("419") }
Vars    == { B("valencia"), B("1996"), B("VALENCIA"), B("abcde"), B("1abc"), B("1959acad"), B("12345") }

Init == l \in Langs /\ s \in Scripts /\ r \in Regions /\ vs = <<>>
Next == /\ Len(vs) < MaxV
        /\ \E v \in Vars : vs' = Append(vs, v)
        /\ UNCHANGED <<l, s, r>>
Spec == Init /\ [][Next]_<<l, s, r, vs>>

Val == FromPartsLI(CanonLanguage(l), IF s = <<>> THEN <<>> ELSE CanonScript(s),
                   IF r = <<>> THEN <<>> ELSE CanonRegion(r),
                   [i \in 1..Len(vs) |-> CanonVariant(vs[i])])
Joined == Join(<<l>> \o Opt(s) \o Opt(r) \o vs)

(* from_parts equals parsing the joined string; the value is well formed;   *)
(* decomposing and rebuilding is the identity                               *)
EqualsParse == LET p == ParseLI(Joined) IN p.ok /\ p.val = Val
ValueOK == LIValueOK(Val)
PartsRoundTrip == FromPartsLI(Val.lang, Val.script, Val.region, Val.variants) = Val
OrderIrrelevant == \A i \in 1..(Len(vs) - 1) :
    LET sw == [vs EXCEPT ![i] = vs[i+1], ![i+1] = vs[i]] IN
    SortDedup([j \in 1..Len(sw) |-> CanonVariant(sw[j])]) = Val.variants

CaseRec == [k |-> "parts", lang |-> l, script |-> s, region |-> r, variants |-> vs,
            val |-> Val, ser |-> SerLI(Val), joined |-> Joined]
EmitCase == PrintT("CASE " \o ToJson(CaseRec))
=============================================================================
