----------------------------- MODULE MC_Parts -----------------------------
(***************************************************************************)
(* from_parts / into_parts (C17): subtags in any letter case, variants in  *)
(* any order with repetitions, up to MaxV variants.                        *)
(***************************************************************************)
EXTENDS Locale, Ascii, TLC, Json, IOUtils

CONSTANT MaxV
VARIABLES l, s, r, vs

(* words the library's own sources mention (VERIF_DICT), in the positions they fit: a code the parser treats specially    *)
(* (an alias table, a legacy code) must come out of from_parts exactly as it comes out of parsing the joined text         *)
DictRaw == JsonDeserialize(IOEnv.VERIF_DICT)
DictWords == { DictRaw[n] : n \in 1..Len(DictRaw) }
DLangs   == { w \in DictWords : IsLanguage(w) }
DScripts == { w \in DictWords : IsScript(w) }
DRegions == { w \in DictWords : IsRegion(w) }
DVars    == { w \in DictWords : IsVariant(w) }
Langs   == { B("en"), B("UND"), B("abcde") } \cup DLangs
Scripts == { <<>>, B("latn"), B("CYRL") } \cup DScripts
Regions == { <<>>, B("us"), B("419") } \cup DRegions
BaseVars == { B("valencia"), B("1996"), B("VALENCIA"), B("abcde"), B("1abc"), B("1959acad"), B("12345") }
Vars    == BaseVars \cup DVars
FromDict == l \in DLangs \/ s \in DScripts \/ r \in DRegions

Init == l \in Langs /\ s \in Scripts /\ r \in Regions /\ vs = <<>>
Next == /\ Len(vs) < (IF FromDict THEN 1 ELSE MaxV)
        /\ \E v \in (IF Len(vs) = 0 THEN Vars ELSE BaseVars) : vs' = Append(vs, v)      \* a dictionary word as the first variant only
        /\ UNCHANGED <<l, s, r>>
Spec == Init /\ [][Next]_<<l, s, r, vs>>

Val == FromPartsLI(CanonLanguage(l), IF s = <<>> THEN <<>> ELSE CanonScript(s),
                   IF r = <<>> THEN <<>> ELSE CanonRegion(r),
                   [i \in 1..Len(vs) |-> CanonVariant(vs[i])])
Joined == Join(<<l>> \o Opt(s) \o Opt(r) \o vs)

(* from_parts equals parsing the joined string; the value is well formed;   *)
(* decomposing and rebuilding is the identity                               *)
EqualsParse == LET p == ParseLI(Joined) IN p.ok /\ p.val = Val
ValueOK == LIValueOK(Val)
PartsRoundTrip == FromPartsLI(Val.lang, Val.script, Val.region, Val.variants) = Val
OrderIrrelevant == \A i \in 1..(Len(vs) - 1) :
    LET sw == [vs EXCEPT ![i] = vs[i+1], ![i+1] = vs[i]] IN
    SortDedup([j \in 1..Len(sw) |-> CanonVariant(sw[j])]) = Val.variants

CaseRec == [k |-> "parts", lang |-> l, script |-> s, region |-> r, variants |-> vs,
            val |-> Val, ser |-> SerLI(Val), joined |-> Joined]
EmitCase == PrintT("CASE " \o ToJson(CaseRec))
=============================================================================
