----------------------------- MODULE MC_Locale -----------------------------
(***************************************************************************)
(* Bounded-exhaustive model of locale parsing: the state graph IS the      *)
(* grammar.  A state is a token sequence over the extension vocabulary; a  *)
(* step appends one token to a sequence the automaton has not yet          *)
(* rejected (a rejected sequence is a leaf: it is still a test case, and   *)
(* "dead" is absorbing, so its extensions are rejected too).               *)
(* Mode "loc": the sequence is a whole locale.  Mode "ext": the sequence   *)
(* is the text given to ExtensionsMap::from_bytes.                         *)
(***************************************************************************)
EXTENDS Locale, Alphabets, TLC, Json

CONSTANTS Depth, FullDepth, Alpha, Emit, Mode    \* Alpha: "full" | "small" | "tiny"

VARIABLE toks

Alphabet == IF Alpha = "tiny" THEN TokensLocTiny ELSE IF Alpha = "small" THEN TokensLocSmall ELSE TokensLoc

R(ts) == IF Mode = "loc" THEN ParseLocTokens(ts) ELSE ParseExtTokens(ts)
Live(ts) == R(ts).zone # "reject"

Init == toks \in { <<t>> : t \in Alphabet }
Next == /\ Len(toks) < Depth
        /\ Len(toks) < FullDepth \/ Live(toks)
        /\ \E t \in Alphabet : toks' = Append(toks, t)
Spec == Init /\ [][Next]_toks

Input == Join(toks)
Res == R(toks)
Ser(v) == IF Mode = "loc" THEN SerLoc(v) ELSE SerExt(v)
Reparse(bs) == IF Mode = "loc" THEN ParseLoc(bs) ELSE ParseExt(bs)

SplitInverse == Split(Input) = toks
ZoneDefined == Res.zone \in {"accept", "either", "other", "free", "reject"}
ValueOK == Res.zone # "reject" => LocValueOK(Res.val)

(* C04/C05 on the specification: canonical text of every non-rejected      *)
(* value is strictly well formed, a fixpoint, re-parses to the same value,  *)
(* and is never longer than the input.                                      *)
RoundTrip ==
    Res.zone # "reject" =>
        LET s == Ser(Res.val)  r == Reparse(s) IN
        /\ r.zone = "accept" \/ (r.zone = "either" /\ r.onlyEmptyTf)
        /\ r.val = Res.val
        /\ Ser(r.val) = s
        /\ Mode = "loc" => Len(s) <= Len(Input)

(* C03: an accepted input's subtags all reach the value, and nothing else  *)
LowSet(ts) == { LowerSeq(ts[i]) : i \in 1..Len(ts) } \ {TrueWord, <<>>}
NothingDropped ==
    Res.zone = "accept" =>
        LowSet(toks) = LowSet(IF Mode = "loc" THEN SerLocTokens(Res.val) ELSE ExtToks(Res.val))

(* the language identifier of a well-formed locale is what the language-   *)
(* identifier parser reads from the part before the first singleton (C13)  *)
FirstSingleton == IF \E i \in 2..Len(toks) : Len(toks[i]) = 1
                  THEN CHOOSE i \in 2..Len(toks) : Len(toks[i]) = 1 /\ \A j \in 2..(i-1) : Len(toks[j]) # 1
                  ELSE Len(toks) + 1
IdIsPrefixParse ==
    Mode = "loc" /\ Res.zone = "accept" =>
        LET r == ParseLITokens(SubSeq(toks, 1, FirstSingleton - 1)) IN r.ok /\ r.val = Res.val.id

CaseRec ==
    IF Mode = "loc"
    THEN [k |-> "parse", toks |-> toks,
          loc |-> [zone |-> Res.zone, why |-> Res.why, val |-> Res.val, ser |-> SerLoc(Res.val)]]
    ELSE [k |-> "parse", toks |-> toks,
          ext |-> [zone |-> Res.zone, why |-> Res.why, val |-> Res.val, ser |-> SerExt(Res.val)]]
EmitCase == Emit => PrintT("CASE " \o ToJson(CaseRec))
=============================================================================
