------------------------------- MODULE Trace -------------------------------
(***************************************************************************)
(* Trace validation (impl -> spec).  The Rust drivers call the real public *)
(* API and log one event per call at its return: operation, argument       *)
(* bytes, outcome, the full projected abstract state, the serialised text. *)
(* Each event must be a step this specification allows.  The operators     *)
(* are the ones the bounded models use; nothing is re-stated here.         *)
(*                                                                         *)
(* Every event is consumed and classified.  A non-conforming event prints  *)
(* a MISMATCH line (with the properties it violates) and the object state  *)
(* is resynchronised from the event's logged state, so one run reports all *)
(* disagreements instead of stopping at the first.                         *)
(*   env TRACE         the ndjson event log                                *)
(*   env VERIF_LIKELY / VERIF_LAYOUT  CLDR data (see Cldr.tla)             *)
(***************************************************************************)
EXTENDS ObjectLikely

Rec == ndJsonDeserialize(IOEnv.TRACE)

VARIABLES pos, obj     \* (not "i": a variable named like a bound variable of the library
                       \*  modules stops TLC from caching their constant definitions)
vars == <<pos, obj>>

(* ----- verdicts ------------------------------------------------------------ *)
Good(o) == [good |-> TRUE, why |-> "", props |-> <<>>, obj |-> o]
Bad(why, props, o) == [good |-> FALSE, why |-> why, props |-> props, obj |-> o]

OutputOK(k) == k \in {"ok", "err"}

JudgeLiParse(e, o) ==
    LET r == ParseLI(e.in) IN
    IF ~OutputOK(e.out.k) THEN Bad("outcome-" \o e.out.k, IF r.ok THEN <<"C01", "C02">> ELSE <<"C01">>, o)
    (* canonicalize is a door to the same function: a panic there on a well-formed input is not success either *)
    ELSE IF r.ok /\ e.canon.k = "panic" THEN Bad("canonicalize-panics-on-well-formed-input", <<"C01", "C02">>, o)
    ELSE IF r.ok /\ e.out.k = "ok" THEN
        IF e.st # r.val THEN Bad("li-value", <<"C02">>, o)
        ELSE IF e.ser # SerLI(r.val) THEN Bad("li-text", <<"C04", "C02">>, o)
        ELSE IF ~StrictCanonicalLI(e.ser) \/ Len(e.ser) > Len(e.in) THEN Bad("li-text-not-canonical", <<"C04">>, o)
        ELSE IF e.canon.k # "ok" \/ e.canon.text # e.ser THEN Bad("li-canonicalize", <<"C04">>, o)
        ELSE IF ~e.fromstr_same THEN Bad("li-fromstr-differs", <<"C02">>, o)
        ELSE IF "again" \in DOMAIN e /\ ~e.again THEN Bad("li-second-call-differs", <<"C02">>, o)
        ELSE IF "as_locale" \in DOMAIN e /\ e.as_locale # "same" THEN Bad("locale-" \o e.as_locale \o "-where-langid-accepts", <<"C13">>, o)
        ELSE Good(o)
    ELSE IF ~r.ok /\ e.out.k = "err" THEN
        IF e.out.err # r.err THEN Bad("li-error-kind", <<"C02">>, o)
        ELSE IF e.canon.k # "err" \/ ~e.fromstr_same THEN Bad("li-canonicalize-or-fromstr-differs", <<"C02", "C04">>, o)
        ELSE IF "again" \in DOMAIN e /\ ~e.again THEN Bad("li-second-call-differs", <<"C02">>, o)
        ELSE Good(o)
    ELSE IF r.ok THEN Bad("li-rejects-well-formed", <<"C02">>, o)
    (* C13 speaks of every input the LIBRARY accepts as a language identifier, whatever the grammar says about it *)
    ELSE Bad("li-accepts-ill-formed", IF "as_locale" \in DOMAIN e /\ e.as_locale # "same" THEN <<"C02", "C13">> ELSE <<"C02">>, o)

(* any text the library prints must be strictly canonical (C04) and re-parse *)
(* to the value it was printed from (C05), whatever zone the input was in    *)
TextOK(st, ser) ==
    /\ StrictCanonicalLoc(ser)
    /\ ParseLoc(ser).val = st
    /\ SerLoc(st) = ser

JudgeLocParse(e, o) ==
    LET r == ParseLoc(e.in) IN
    IF ~OutputOK(e.out.k) THEN Bad("outcome-" \o e.out.k, IF r.zone = "accept" THEN <<"C01", "C03">> ELSE <<"C01">>, o)
    ELSE IF e.out.k = "ok" THEN
        (* an ill-formed input that is accepted is a C03 matter; if what is then printed is not a canonical    *)
        (* well-formed identifier either, C04 is violated as well (whatever the value came from)               *)
        IF r.zone = "reject" THEN Bad("loc-accepts-ill-formed", IF StrictCanonicalLoc(e.ser) THEN <<"C03">> ELSE <<"C03", "C04">>, o)
        ELSE IF r.zone \in {"accept", "either", "other"} /\ e.st # r.val THEN Bad("loc-value-" \o r.zone, <<"C03">>, o)
        ELSE IF ~LocValueOK(e.st) THEN Bad("loc-value-ill-formed", <<"C04", "C03">>, o)
        (* a library that supports other extensions prints them too: text not judged *)
        ELSE IF r.zone = "other" THEN Good(o)
        ELSE IF ~TextOK(e.st, e.ser) THEN Bad("loc-text", <<"C04", "C05">>, o)
        ELSE IF Len(e.ser) > Len(e.in) THEN Bad("loc-text-longer-than-input", <<"C04">>, o)
        ELSE IF e.canon.k # "ok" \/ e.canon.text # e.ser THEN Bad("loc-canonicalize", <<"C04">>, o)
        ELSE IF ~e.fromstr_same THEN Bad("loc-fromstr-differs", <<"C03">>, o)
        ELSE IF "again" \in DOMAIN e /\ ~e.again THEN Bad("loc-second-call-differs", <<"C03">>, o)
        ELSE Good(o)
    ELSE IF r.zone = "accept" THEN Bad("loc-rejects-well-formed", <<"C03", "C13">>, o)
    ELSE IF e.canon.k # "err" \/ ~e.fromstr_same THEN Bad("loc-canonicalize-or-fromstr-differs", <<"C03", "C04">>, o)
    ELSE IF "again" \in DOMAIN e /\ ~e.again THEN Bad("loc-second-call-differs", <<"C03">>, o)
    ELSE Good(o)

JudgeExtParse(e, o) ==
    LET r == ParseExt(e.in) IN
    IF ~OutputOK(e.out.k) THEN Bad("outcome-" \o e.out.k, <<"C01">>, o)
    ELSE IF e.out.k = "ok" THEN
        IF r.zone = "reject" THEN Bad("ext-accepts-ill-formed", <<"C03">>, o)
        ELSE IF r.zone \in {"accept", "either", "other"} /\ [e.st EXCEPT !.id = LIDefault] # r.val
             THEN Bad("ext-value", <<"C03">>, o)
        (* a library that supports other extensions prints them too: text not judged (as in JudgeLocParse) *)
        ELSE IF r.zone = "other" THEN Good(o)
        ELSE IF e.ser # SerExt([e.st EXCEPT !.id = LIDefault]) THEN Bad("ext-text", <<"C04">>, o)
        ELSE Good(o)
    ELSE IF r.zone = "accept" THEN Bad("ext-rejects-well-formed", <<"C03">>, o)
    ELSE Good(o)

JudgeSub(e, o) ==
    IF ~OutputOK(e.out.k) THEN Bad("outcome-" \o e.out.k, <<"C01">>, o)
    ELSE IF IsKind(e.kind, e.in) # (e.out.k = "ok") THEN Bad("subtag-verdict-" \o e.kind, <<"C15">>, o)
    ELSE IF e.out.k = "ok" /\ e.text # CanonKind(e.kind, e.in) THEN Bad("subtag-text-" \o e.kind, <<"C15">>, o)
    ELSE IF e.out.k = "ok" /\ e.raw # LE(CanonKind(e.kind, e.in), WidthOf(e.kind))
            /\ ~(e.kind = "language" /\ e.text = Und /\ e.raw = <<>>)
         THEN Bad("subtag-raw-" \o e.kind, <<"C17">>, o)
    ELSE Good(o)

(* one public mutator / getter call on the object                            *)
JudgeOp(e, o) ==
    IF ~OutputOK(e.out.k) THEN Bad("outcome-" \o e.out.k, <<"C01", "C10">>, e.st)
    ELSE IF e.o.op \in LikelyOps THEN
        LET allowed == { ApplyOpL(o, e.o, fb) : fb \in CfgsFor(T, StrOf(o.id.lang)) }
            hit == { x \in allowed : x.res = e.out /\ x.obj = e.st }
        IN IF hit = {} THEN Bad("op-" \o e.o.op, <<"C10", IF e.o.op = "maximize" THEN "C07" ELSE "C08">>, e.st)
           ELSE IF e.ser # SerLoc(e.st) THEN Bad("op-text", <<"C04", "C10">>, e.st)
           ELSE Good(e.st)
    ELSE LET r == ApplyOp(o, e.o) IN
        IF r.res # e.out THEN Bad("op-result-" \o e.o.op, <<"C10">>, e.st)
        ELSE IF r.obj # e.st THEN
             Bad(IF r.res.k = "err" THEN "op-error-changed-value-" \o e.o.op ELSE "op-state-" \o e.o.op, <<"C10">>, e.st)
        ELSE IF e.ser # SerLoc(r.obj) THEN Bad("op-text-" \o e.o.op, <<"C04", "C10">>, e.st)
        ELSE IF e.empties # IsEmptyFlags(r.obj) THEN Bad("op-is-empty-" \o e.o.op, <<"C10">>, e.st)
        ELSE Good(r.obj)

JudgeStart(e) ==
    IF e.in = <<>> THEN (IF e.st = LocDefault THEN Good(LocDefault) ELSE Bad("default-value", <<"C10">>, e.st))
    ELSE LET r == ParseLoc(e.in) IN
         IF r.zone = "accept" /\ e.out.k = "ok" /\ e.st = r.val THEN Good(r.val)
         ELSE IF r.zone = "accept" THEN Bad("start-value", <<"C03", "C10">>, e.st)
         ELSE Good(e.st)

(* the value the object holds obeys every value-level obligation             *)
JudgeValue(e, o) ==
    (* every value-level obligation is judged on the value the implementation actually holds (e.st), and  *)
    (* ALL failing obligations are reported: a drift from the model must not hide a broken round trip     *)
    LET v == e.st
        wellFormed == ObjOK(v)
        f1 == IF v # o THEN <<"C10">> ELSE <<>>
        f2 == IF ~wellFormed THEN <<"C04", "C10">> ELSE <<>>
        f3 == IF e.ser # SerLoc(v) \/ (wellFormed /\ ~ObjRoundTrip(v)) THEN <<"C04", "C05">> ELSE <<>>
        f4 == IF ~e.reparse_ok THEN <<"C05">> ELSE <<>>
        f5 == IF ~e.ext_reparse_ok THEN <<"C05", "C17">> ELSE <<>>
        f6 == IF ~e.parts_ok THEN <<"C17">> ELSE <<>>
        (* equal canonical text but unequal / differently hashed / not Equal; == with a foreign &str *)
        f7 == IF ~e.same_text_equal \/ e.foreign_str_eq THEN <<"C12">> ELSE <<>>
        all == f1 \o f2 \o f3 \o f4 \o f5 \o f6 \o f7
        why == IF f1 # <<>> THEN "value-drifted" ELSE IF f2 # <<>> THEN "value-ill-formed"
               ELSE IF f3 # <<>> THEN "value-text" ELSE IF f4 # <<>> THEN "value-does-not-reparse"
               ELSE IF f5 # <<>> THEN "value-extmap-does-not-reparse" ELSE IF f6 # <<>> THEN "value-parts-roundtrip"
               ELSE "value-eq-hash-or-str-comparison"
    IN IF all = <<>> THEN Good(o) ELSE Bad(why, all, v)

(* comparison of two projected values                                        *)
JudgeCmp(e, o) ==
    LET eq == e.a = e.b IN
    IF e.eq # eq THEN Bad("eq-vs-abstract-value", <<"C12">>, o)
    ELSE IF e.str_eq # (SerLoc(e.a) = SerLoc(e.b)) \/ e.str_eq # eq THEN Bad("eq-vs-text", <<"C12">>, o)
    ELSE IF (e.ord = "eq") # eq THEN Bad("cmp-vs-eq", <<"C12">>, o)
    ELSE IF e.li_ord # CmpLI(e.a.id, e.b.id) THEN Bad("langid-order", <<"C12">>, o)
    ELSE IF e.a.id # e.b.id /\ e.ord # e.li_ord THEN Bad("locale-order-not-by-id", <<"C12">>, o)
    ELSE IF e.rev # (CASE e.ord = "lt" -> "gt" [] e.ord = "gt" -> "lt" [] OTHER -> "eq") THEN Bad("cmp-antisymmetry", <<"C12">>, o)
    ELSE IF eq /\ ~e.hash_eq THEN Bad("hash-of-equal-values", <<"C12">>, o)
    ELSE IF e.li_eq # (e.a.id = e.b.id) \/ e.li_eq_str # (e.a.id = e.b.id) THEN Bad("langid-eq-or-eq-str", <<"C12">>, o)
    ELSE IF e.li_eq /\ ~e.li_hash_eq THEN Bad("hash-of-equal-langids", <<"C12">>, o)
    ELSE IF e.ext_eq # ([e.a EXCEPT !.id = LIDefault] = [e.b EXCEPT !.id = LIDefault]) \/ (e.ext_ord = "eq") # e.ext_eq
         THEN Bad("extension-map-eq-or-cmp", <<"C12">>, o)
    ELSE Good(o)

JudgeMatch(e, o) ==
    IF e.loc # MatchesLoc(e.a, e.b, e.ra, e.rb) THEN Bad("locale-matches", <<"C11">>, o)
    ELSE IF e.li # MatchesLI(e.a.id, e.b.id, e.ra, e.rb) THEN Bad("langid-matches", <<"C11">>, o)
    ELSE Good(o)

JudgeLikely(e, o) ==
    LET l == StrOf(e.l)  s == OptStr(e.s)  r == OptStr(e.r)
        enc(x) == <<x[1], <<B(x[2][1]), OptB(x[2][2]), OptB(x[2][3])>> >> IN
    IF e.max \notin { enc(x) : x \in AllowedMax(T, l, s, r) } THEN Bad("maximize-answer", <<"C06">>, o)
    ELSE IF e.min \notin { enc(x) : x \in AllowedMin(T, l, s, r) } THEN Bad("minimize-answer", <<"C08">>, o)
    ELSE Good(o)

JudgeDir(e, o) ==
    (* a CLDR layout locale must get the CLDR answer (with likely subtags; without them, unless it is script-less and its  *)
    (* language has more than one direction): AllowedDir knows, given the CLDR entry                                     *)
    IF e.dir \notin AllowedDir(StrOf(e.l), OptStr(e.s), OptStr(e.r), e.likely, CldrOf(StrOf(e.l), OptStr(e.s), OptStr(e.r)))
        THEN Bad("direction", <<"C14">>, o)
    ELSE IF "dir2" \in DOMAIN e /\ e.dir2 # e.dir THEN Bad("direction-second-call-differs", <<"C14">>, o)
    ELSE Good(o)

(* a pair the driver believes equivalent (C09).  The SPECIFICATION decides   *)
(* whether the pair is one C09 speaks about, and only then is the           *)
(* implementation required to agree:                                         *)
(*  - the texts differ only in letter case and separator choice (any zone,  *)
(*    also ill-formed, "either" and "free" inputs), or                      *)
(*  - both verdicts are fixed by the grammar (accept / reject) and the      *)
(*    values are equal (reordered unordered parts).                          *)
(* A pair that merely moves an empty subtag is not judged: in the "either"  *)
(* zone each text may be accepted or rejected on its own.                    *)
NormText(bs) == [k \in 1..Len(bs) |-> IF bs[k] = 95 THEN 45 ELSE LowerB(bs[k])]
JudgeMeta(e, o) ==
    LET ra == ParseLoc(e.a)  rb == ParseLoc(e.b)
        sameNorm == NormText(e.a) = NormText(e.b)
        fixed == {"accept", "reject"}
        equiv == \/ sameNorm
                 \/ /\ ra.zone \in fixed /\ rb.zone \in fixed
                    /\ \/ ra.zone = "reject" /\ rb.zone = "reject"
                       \/ ra.zone = "accept" /\ rb.zone = "accept" /\ ra.val = rb.val
    IN IF equiv /\ ~e.same THEN Bad("meta-" \o e.tr, <<"C09">>, o) ELSE Good(o)

(* a compile-time macro evaluated at run time (C16): the literal is well     *)
(* formed, the value is what parsing the literal gives, no run-time failure  *)
JudgeMacro(e, o) ==
    (* a value that projects and prints like the parsed one but is not == to it breaks "x == y iff same canonical text" too *)
    LET unequal == <<"C16", "C12">> IN
    IF e.out.k # "ok" THEN Bad("macro-runtime-failure-" \o e.m, <<"C16">>, o)
    ELSE IF e.m \in {"langid", "langids", "langid_slice"} THEN
        LET r == ParseLI(e.lit) IN
        IF r.ok /\ e.st = r.val /\ e.rt_eq THEN Good(o)
        ELSE IF r.ok /\ e.st = r.val THEN Bad("macro-value-not-equal-to-parsed-" \o e.m, unequal, o)
        ELSE Bad("macro-value-" \o e.m, <<"C16">>, o)
    ELSE IF e.m \in {"locale", "locales"} THEN
        LET r == ParseLoc(e.lit) IN
        IF r.zone = "accept" /\ e.st = r.val /\ e.rt_eq THEN Good(o)
        ELSE IF r.zone = "accept" /\ e.st = r.val THEN Bad("macro-value-not-equal-to-parsed-" \o e.m, <<"C16", "C12", "C13">>, o)
        ELSE Bad("macro-value-" \o e.m, <<"C16">>, o)
    ELSE IF e.m \in Kinds THEN
        IF IsKind(e.m, e.lit) /\ e.st = CanonKind(e.m, e.lit) /\ e.rt_eq THEN Good(o)
        ELSE IF IsKind(e.m, e.lit) /\ e.st = CanonKind(e.m, e.lit) THEN Bad("macro-value-not-equal-to-parsed-" \o e.m, unequal, o)
        ELSE Bad("macro-value-" \o e.m, <<"C16">>, o)
    ELSE Bad("unknown-macro", <<"C16">>, o)

(* 'und' is the empty language, however it is produced (C15)                 *)
JudgeUnd(e, o) ==
    IF /\ e.default = Und /\ e.cleared = Und /\ e.try_none = Und /\ e.parsed_und = Und
       /\ e.default_empty /\ e.cleared_empty /\ e.try_none_empty /\ e.parsed_und_empty
       /\ ~e.en_empty /\ e.try_some = <<101, 110>> /\ e.all_equal
    THEN Good(o) ELSE Bad("und-is-not-the-empty-language", <<"C15">>, o)

(* ExtensionType::from_byte: u / t / x / other alphanumeric / error, any case *)
ExtTypeOf(b) == LET c == LowerB(b) IN
    IF c = 117 THEN "u" ELSE IF c = 116 THEN "t" ELSE IF c = 120 THEN "x"
    ELSE IF IsAlnum(b) THEN "other" ELSE "err"
(* only totality is demanded of this helper by the listed properties (C01);  *)
(* its classification of a byte is specified here but a difference is not a  *)
(* violation of any of them                                                  *)
JudgeExtType(e, o) ==
    IF e.out = "panic" THEN Bad("extension-type-of-byte-panics", <<"C01">>, o)
    ELSE IF e.out = ExtTypeOf(e.b) /\ (e.out = "other" => e.ch = LowerB(e.b)) THEN Good(o)
    ELSE Bad("extension-type-of-byte-differs-from-spec", <<"INFO">>, o)

Judge(e, o) ==
    CASE e.op = "li_parse"  -> JudgeLiParse(e, o)
      [] e.op = "loc_parse" -> JudgeLocParse(e, o)
      [] e.op = "ext_parse" -> JudgeExtParse(e, o)
      [] e.op = "sub"       -> JudgeSub(e, o)
      [] e.op = "start"     -> JudgeStart(e)
      [] e.op = "op"        -> JudgeOp(e, o)
      [] e.op = "value"     -> JudgeValue(e, o)
      [] e.op = "cmp"       -> JudgeCmp(e, o)
      [] e.op = "match"     -> JudgeMatch(e, o)
      [] e.op = "likely"    -> JudgeLikely(e, o)
      [] e.op = "dir"       -> JudgeDir(e, o)
      [] e.op = "meta"      -> JudgeMeta(e, o)
      [] e.op = "macro"     -> JudgeMacro(e, o)
      [] e.op = "und"       -> JudgeUnd(e, o)
      [] e.op = "ext_type"  -> JudgeExtType(e, o)
      [] OTHER              -> Bad("unknown-event", <<>>, o)

(* ----- the trace specification ---------------------------------------------- *)
TraceInit == pos = 1 /\ obj = LocDefault
TraceNext ==
    /\ pos <= Len(Rec)
    /\ LET v == Judge(Rec[pos], obj) IN
       /\ IF v.good THEN TRUE
          ELSE PrintT("MISMATCH " \o ToJson([line |-> pos, why |-> v.why, props |-> v.props, event |-> Rec[pos]]))
       /\ obj' = v.obj
    /\ pos' = pos + 1
TraceSpec == TraceInit /\ [][TraceNext]_vars

TraceAccepted ==
    IF TLCGet("stats").diameter - 1 = Len(Rec) THEN PrintT("TRACE-ACCEPTED")
    ELSE PrintT(<<"TRACE-INCOMPLETE", TLCGet("stats").diameter - 1, Len(Rec)>>) /\ FALSE
=============================================================================
