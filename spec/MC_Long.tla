------------------------------ MODULE MC_Long ------------------------------
(***************************************************************************)
(* Lists of EVERY SIZE.  The boundary alphabets bound the number of        *)
(* subtags (depth 3..9); containers with many members (inline capacities,  *)
(* stack buffers, counters, binary-search positions) are reached there     *)
(* only by the random drivers.  Here the size is the state: for each       *)
(* unordered part -- variants, -u- attributes, -u- keywords, -t- fields,   *)
(* -x- tags -- and every n in 0..MaxN there is one input with exactly n    *)
(* members (in a fixed, unsorted order, mixed case, with one repeat where  *)
(* the grammar allows it), under three different heads.  A second family   *)
(* sweeps the byte offset of one ill-formed two-byte character through a   *)
(* long, otherwise well-formed identifier (error paths that quote or       *)
(* truncate the input).  Every state is a case for both parsers, exactly   *)
(* as in MC_LangId (and, with the serde feature, for the serde form).      *)
(***************************************************************************)
EXTENDS Locale, Alphabets, TLC, Json

CONSTANT MaxN

VARIABLES kind, n, head, us

(* forty-eight distinct members of each kind, in an order that is not the   *)
(* sorted one; lengths cover every valid length of the production           *)
Digit(d) == <<48 + d>>
Two(d) == Digit(d \div 10) \o Digit(d % 10)
Letter(d) == <<97 + (d % 26)>>
VariantNo(d) == IF d % 5 = 0 THEN Digit(d % 10) \o B("x") \o Two(d)                     \* 4: digit + 3
                ELSE B("Vr") \o Two((37 * d) % 100) \o SubSeq(B("abcd"), 1, 1 + (d % 4))    \* 5..8, scrambled order
AttrNo(d) == B("A") \o Two((37 * d + 11) % 100) \o SubSeq(B("zzzzz"), 1, d % 6)        \* 3..8, scrambled order
KeyNo(d) == Letter(7 * d + 3) \o Letter(d \div 26 + 11 * d)                              \* alnum + alpha
UKeyNo(d) == IF d % 7 = 0 THEN Digit(d % 10) \o Letter(d) ELSE Letter(d \div 26) \o Letter((11 * d + 5) % 26)
TKeyNo(d) == Letter((5 * d + 2) % 26) \o Digit((d \div 26 + d) % 10)
TagNo(d) == Two((53 * d + 7) % 100) \o SubSeq(B("Qqqqqq"), 1, d % 7)                    \* 2..8, scrambled order

Distinct(f(_), m) == \A a, b \in 1..m : a # b => LowerSeq(f(a)) # LowerSeq(f(b))
ASSUME /\ Distinct(VariantNo, 48) /\ Distinct(AttrNo, 48) /\ Distinct(TagNo, 24)
       /\ Distinct(LAMBDA d : UKeyNo(d), 48) /\ Distinct(LAMBDA d : TKeyNo(d), 48)
       /\ \A d \in 1..48 : IsVariant(VariantNo(d)) /\ IsAttr(AttrNo(d)) /\ IsUKey(UKeyNo(d)) /\ IsTKey(TKeyNo(d))

FlipMasks == <<0, 32, 16, 64, 128, 1, 2, 4>>
(* XOR of a byte with a one-bit mask: add the mask if the bit is clear, subtract it if set                                *)
XorByte(b, m) == IF m = 0 THEN b ELSE IF (b \div m) % 2 = 0 THEN b + m ELSE b - m
(* short ones too: a cache of recent inputs may hold only short texts                                                    *)
FlipBase == << B("en-US"), B("es-419"), B("de-1996-t-h0-hybrid") >>
AnyBase == << B("en-US-u-foo-t-hi-latn"), B("sr_Cyrl_RS_valencia_x_a1"), B("de-1996-u-ca-gregory-t-h0-hybrid") >>
Heads == << <<B("en")>>, <<B("SR"), B("cyrl"), B("rs")>>, <<B("und"), B("419")>> >>

Members(f(_), m) == [j \in 1..m |-> f(j)]
Pairs(fk(_), m) == Flatten([j \in 1..m |-> <<fk(j), B("x1X")>>])
(* one repeat of the second member at the end, where a repeat is harmless   *)
WithRepeat(seq) == IF Len(seq) >= 2 THEN Append(seq, seq[2]) ELSE seq

Toks ==
    CASE kind = "variants" -> Heads[head] \o WithRepeat(Members(VariantNo, n))
      [] kind = "attrs"    -> Heads[head] \o <<B("u")>> \o WithRepeat(Members(AttrNo, n))
      [] kind = "keywords" -> Heads[head] \o <<B("U")>> \o Pairs(UKeyNo, n)
      [] kind = "tfields"  -> Heads[head] \o <<B("t")>> \o Pairs(TKeyNo, n)
      [] kind = "tags"     -> Heads[head] \o <<B("x")>> \o WithRepeat(Members(TagNo, IF n > 24 THEN 24 ELSE n))
      (* ONE keyword with n types, ONE tfield with n values, a tlang with n variants (ordered lists, kept as given)    *)
      [] kind = "types"    -> Heads[head] \o <<B("u"), B("ca")>> \o Members(AttrNo, n)
      [] kind = "tvalues"  -> Heads[head] \o <<B("T"), B("h0")>> \o Members(AttrNo, n)
      [] kind = "tlangvars" -> Heads[head] \o <<B("t"), B("DE"), B("latn")>> \o WithRepeat(Members(VariantNo, n)) \o <<B("h0"), B("hybrid")>>
      [] kind = "all"      -> Heads[head] \o Members(VariantNo, n) \o <<B("t")>> \o Pairs(TKeyNo, n)
                              \o <<B("u")>> \o Members(AttrNo, n) \o Pairs(UKeyNo, n) \o <<B("x")>> \o Members(TagNo, IF n > 24 THEN 24 ELSE n)
      [] kind = "odd"      ->   \* a two-byte character at byte offset n of a long identifier
           LET base == Join(Heads[head] \o Members(VariantNo, 12))
               cut == IF n > Len(base) THEN Len(base) ELSE n
           IN Split(SubSeq(base, 1, cut) \o <<195, 129>> \o SubSeq(base, cut + 1, Len(base)))

      (* EVERY byte value (n % 256) put in front of byte offset n \div 256 of a locale that has every kind of part: the    *)
      (* bytes next to the separators (',' '.' '^' '`'), the case bit, the high bit ... at every position, also right     *)
      (* before a separator and at an extension boundary (a tokenizer or classifier built on bit tricks)                  *)
      [] kind = "anybyte" ->
           LET base == AnyBase[head]
               off == n \div 256
           IN Split(SubSeq(base, 1, off) \o <<n % 256>> \o SubSeq(base, off + 1, Len(base)))

      (* ONE byte of the same locales REPLACED by the byte with one bit flipped (0x20: the case bit, which maps '-' to CR,   *)
      (* '_' to DEL, the digits to control characters and '@[`{' onto each other; 0x10, 0x40, 0x80, 0x01): the byte at       *)
      (* offset n \div 8 is XOR-ed with mask number n % 8 (mask 0 leaves the text alone).  A comparison, hash or cache key     *)
      (* that folds case with a bit operation confuses exactly these texts with the well-formed one; the harness parses the   *)
      (* unmodified text first ("after"), so that a remembered answer for it is there to be confused with.                    *)
      [] kind = "flipbit" ->
           LET base == FlipBase[head]
               off == (n \div 8) + 1
               m == FlipMasks[(n % 8) + 1]
           IN Split([base EXCEPT ![off] = XorByte(@, m)])

(* The harness runs these REJECTED calls straight before every round trip it judges (harness/src/replay.rs, poison()):   *)
(* each pushes as much as it can -- variants, attributes, types, tfield values, private tags -- before it fails, so that  *)
(* anything a failed call leaves behind in the library (a scratch buffer that is drained on success only) lands in the     *)
(* very next parse.  That every one of them is ill-formed is checked here, on the specification.                           *)
PoisonLI  == { B("zz-Zzzz-ZZ-poisonv1-poisonv2-u"), B("zz-poisonv1-1xyz-!!"), B("zz-poisonv3-u-ca-gregory") }
PoisonLoc == { B("zz-u-poisona1-poisona2-h0"), B("zz-u-ca-poisont1-!!"), B("zz-t-zz-poisonv4-h0-poisontv-!!"),
               B("zz-t-h0-poisontv-!!"), B("zz-x-poisonp1-toolongpoison"), B("zz-poisonv5-poisonv6-u-!!") }
PoisonExt == { B("u-poisona3-h0"), B("t-h0-poisontv-!!"), B("x-poisonp2-toolongpoison") }
ASSUME /\ \A p \in PoisonLI : ~ParseLI(p).ok
       /\ \A p \in PoisonLoc : ParseLoc(p).zone = "reject"
       /\ \A p \in PoisonExt : ParseExt(p).zone = "reject"

Kinds6 == {"variants", "attrs", "keywords", "tfields", "tags", "all", "odd", "types", "tvalues", "tlangvars", "anybyte", "flipbit"}
(* us: every third separator is an underscore (the two separators must be    *)
(* interchangeable at any length, C09 / C13)                                  *)
Init == kind \in Kinds6 /\ head \in 1..3
        /\ n \in 0..(IF kind = "odd" THEN 3 * MaxN ELSE IF kind = "anybyte" THEN 256 * (Len(AnyBase[head]) + 1) - 1
                       ELSE IF kind = "flipbit" THEN 8 * Len(FlipBase[head]) - 1 ELSE MaxN)
        /\ us \in BOOLEAN /\ (us => kind \in {"variants", "all"} /\ n % 4 = 1)
        /\ (kind \in {"keywords", "tfields", "attrs", "tags", "all", "types", "tvalues"} => n >= 1)
Spec == Init /\ [][FALSE]_<<kind, n, head, us>>

RLI  == ParseLITokens(Toks)
RLoc == ParseLocTokens(Toks)

(* the inputs are what they are meant to be                                  *)
Shape == /\ kind \notin {"odd", "anybyte", "flipbit"} => RLoc.zone = "accept"
         (* a byte that is neither alphanumeric nor a separator makes any text ill-formed, wherever it stands *)
         /\ (kind = "anybyte" /\ ~IsAlnum(n % 256) /\ n % 256 \notin {45, 95}) => RLoc.zone = "reject" /\ ~RLI.ok
         /\ kind = "variants" => RLI.ok /\ Len(RLI.val.variants) = n
         /\ kind = "attrs" => Len(RLoc.val.attrs) = n
         /\ kind = "keywords" => Len(RLoc.val.kw) = n
         /\ kind = "tfields" => Len(RLoc.val.tf) = n
         /\ kind = "types" => Len(RLoc.val.kw) = 1 /\ Len(RLoc.val.kw[1][2]) = n
         /\ kind = "tvalues" => Len(RLoc.val.tf) = 1 /\ Len(RLoc.val.tf[1][2]) = n
         /\ kind = "tlangvars" => RLoc.val.tlang # <<>> /\ Len(RLoc.val.tlang[1].variants) = n
         /\ kind = "odd" => RLoc.zone = "reject" /\ ~RLI.ok
RoundTrip == RLoc.zone = "accept" =>
                LET s == SerLoc(RLoc.val)  r == ParseLoc(s) IN r.zone = "accept" /\ r.val = RLoc.val /\ Len(s) <= Len(Join(Toks))

CaseRec ==
    [k |-> "parse", after |-> IF kind = "flipbit" THEN FlipBase[head] ELSE <<>>, toks |-> Toks, seps |-> [j \in 1..(Len(Toks) - 1) |-> IF us /\ j % 3 = 0 THEN 95 ELSE 45],
     li |-> [ok |-> RLI.ok, err |-> RLI.err, val |-> RLI.val, ser |-> SerLI(RLI.val)],
     loc |-> [zone |-> RLoc.zone, why |-> RLoc.why, val |-> RLoc.val, ser |-> SerLoc(RLoc.val)]]
EmitCase == PrintT("CASE " \o ToJson(CaseRec))
=============================================================================
