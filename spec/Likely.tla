------------------------------- MODULE Likely -------------------------------
(***************************************************************************)
(* Likely subtags (maximize / minimize) and character direction over an    *)
(* abstract table.  Subtags are atoms here: the algorithms only compare    *)
(* and copy them.  A key or value is a triple <<language, script, region>> *)
(* with "und" for the undetermined language and "" for an absent script or *)
(* region.  A table T is a function from keys to full triples.             *)
(***************************************************************************)
EXTENDS Naturals, Sequences, FiniteSets

UndL == "und"
None == ""

Has(T, k) == k \in DOMAIN T

(* given subtags are kept, missing ones come from the table value           *)
Override(v, l, s, r) ==
    << IF l # UndL THEN l ELSE v[1], IF s # None THEN s ELSE v[2], IF r # None THEN r ELSE v[3] >>

IsFull(l, s, r) == l # UndL /\ s # None /\ r # None

(* The most specific matching key, in the order the property fixes:        *)
(* (l,r) or (l,s), then l; for und: (s,r), then s, or r alone.             *)
(* `fb` is the set of OPTIONAL UTS #35 fallbacks an implementation also    *)
(* uses when the cascade above finds nothing (property C06: "where the     *)
(* library finds no entry but a fallback would, either answer is           *)
(* accepted"); each is independently optional:                             *)
(*   "uscript"     und_script_region / und_script for a language that has   *)
(*                 no entry of its own                                      *)
(*   "uregion"     und_region after a script that has no entry              *)
(*   "ulangregion" und_region for a language that has no entry of its own   *)
(*                 (no script given)                                        *)
(*   "bare"        the bare "und" entry for the input und                   *)
(*   "bareAny"     the bare "und" entry as the last resort for any input    *)
(* {} is the cascade the property fixes (and the library's today).          *)
FbRules == {"uscript", "uregion", "ulangregion", "bare", "bareAny"}
FbNone == {}
FbAll == FbRules
FbConfigs == SUBSET FbRules
Candidates(l, s, r, fb) ==
    (IF l # UndL
       THEN (IF r # None THEN << <<l, None, r>> >> ELSE <<>>)
            \o (IF s # None THEN << <<l, s, None>> >> ELSE <<>>)
            \o << <<l, None, None>> >>
       ELSE <<>>)
    \o (IF l = UndL \/ "uscript" \in fb
          THEN (IF s # None /\ r # None THEN << <<UndL, s, r>> >> ELSE <<>>)
               \o (IF s # None THEN << <<UndL, s, None>> >> ELSE <<>>)
          ELSE <<>>)
    \o (IF r # None /\ \/ (l = UndL /\ s = None)
                        \/ (l = UndL /\ s # None /\ "uregion" \in fb)
                        \/ (l # UndL /\ s = None /\ "ulangregion" \in fb)
                        \/ (l # UndL /\ s # None /\ "uscript" \in fb /\ "uregion" \in fb)
          THEN << <<UndL, None, r>> >> ELSE <<>>)
    \o (IF (l = UndL /\ "bare" \in fb) \/ "bareAny" \in fb THEN << <<UndL, None, None>> >> ELSE <<>>)

FirstHit(T, cands) ==
    LET hits == { i \in 1..Len(cands) : Has(T, cands[i]) } IN
    IF hits = {} THEN 0 ELSE CHOOSE i \in hits : \A j \in hits : i <= j

(* <<changed, <<l, s, r>> >>                                                 *)
MaximizeF(T, l, s, r, fb) ==
    IF IsFull(l, s, r) THEN <<FALSE, <<l, s, r>>>>
    ELSE LET c == Candidates(l, s, r, fb)  h == FirstHit(T, c) IN
         IF h = 0 THEN <<FALSE, <<l, s, r>>>>
         ELSE <<TRUE, Override(T[c[h]], l, s, r)>>
Maximize(T, l, s, r) == MaximizeF(T, l, s, r, FbNone)

MinimizeF(T, l, s, r, fb) ==
    LET m0 == MaximizeF(T, l, s, r, fb) IN
    IF ~IsFull(l, s, r) /\ ~m0[1] THEN <<FALSE, <<l, s, r>>>>
    ELSE LET m == m0[2]
             try(tl, ts, tr) == LET x == MaximizeF(T, tl, ts, tr, fb) IN x[1] /\ x[2] = m
         IN IF try(m[1], None, None) THEN <<TRUE, <<m[1], None, None>>>>
            ELSE IF m[3] # None /\ try(m[1], None, m[3]) THEN <<TRUE, <<m[1], None, m[3]>>>>
            ELSE IF m[2] # None /\ try(m[1], m[2], None) THEN <<TRUE, <<m[1], m[2], None>>>>
            ELSE <<FALSE, <<l, s, r>>>>
Minimize(T, l, s, r) == MinimizeF(T, l, s, r, FbNone)

(* the answers property C06/C08 accept                                      *)
(* Only some rules can matter for a given language: none when the language   *)
(* has an entry of its own (its entry is found before any fallback, and the  *)
(* trials of Minimize keep that language); for und the two und-rules; for a  *)
(* language without an entry the four others ("uregion" after "uscript").    *)
(* MC_Sweep checks AllowedMin = AllowedMinFull on the real table.            *)
CfgsFor(T, l) ==
    IF l # UndL /\ Has(T, <<l, None, None>>) THEN {FbNone}
    ELSE IF l = UndL THEN SUBSET {"uregion", "bare"}
    ELSE { c \in SUBSET {"uscript", "uregion", "ulangregion", "bareAny"} : "uregion" \in c => "uscript" \in c }
AllowedMax(T, l, s, r) == { MaximizeF(T, l, s, r, fb) : fb \in CfgsFor(T, l) }
AllowedMin(T, l, s, r) == { MinimizeF(T, l, s, r, fb) : fb \in CfgsFor(T, l) }
AllowedMaxFull(T, l, s, r) == { MaximizeF(T, l, s, r, fb) : fb \in FbConfigs }
AllowedMinFull(T, l, s, r) == { MinimizeF(T, l, s, r, fb) : fb \in FbConfigs }

(* ----- the laws of C07 / C08, for one input ------------------------------ *)
Count(t) == (IF t[2] # None THEN 1 ELSE 0) + (IF t[3] # None THEN 1 ELSE 0)
Keeps(before, after) ==
    /\ before[1] = UndL \/ before[1] = after[1]
    /\ before[2] = None \/ before[2] = after[2]
    /\ before[3] = None \/ before[3] = after[3]

LawsMax(T, l, s, r, fb) ==
    LET x == <<l, s, r>>  m == MaximizeF(T, l, s, r, fb) IN
    /\ m[1] => Keeps(x, m[2]) /\ IsFull(m[2][1], m[2][2], m[2][3])
    /\ ~m[1] => m[2] = x
    /\ LET mm == MaximizeF(T, m[2][1], m[2][2], m[2][3], fb) IN mm[2] = m[2] /\ (m[1] => ~mm[1])

LawsMin(T, l, s, r, fb) ==
    LET x == <<l, s, r>>
        m == MaximizeF(T, l, s, r, fb)
        n == MinimizeF(T, l, s, r, fb)
        full == IF IsFull(l, s, r) THEN x ELSE m[2]
    IN
    /\ ~n[1] => n[2] = x
    /\ n[1] =>
         LET back == MaximizeF(T, n[2][1], n[2][2], n[2][3], fb) IN
         /\ back[2] = full                                     \* meaning preserved
         /\ n[2][1] = full[1]                                  \* no foreign subtag
         /\ n[2][2] \in {None, full[2]} /\ n[2][3] \in {None, full[3]}
         /\ Count(n[2]) <= 1
         (* first of {l, l-r, l-s} that maximizes back                       *)
         /\ LET ok(c) == LET y == MaximizeF(T, c[1], c[2], c[3], fb) IN y[1] /\ y[2] = full IN
            /\ ok(<<full[1], None, None>>) => n[2] = <<full[1], None, None>>
            /\ (~ok(<<full[1], None, None>>) /\ ok(<<full[1], None, full[3]>>)) => n[2] = <<full[1], None, full[3]>>
    (* idempotent, and minimize . maximize = minimize                        *)
    /\ LET nn == MinimizeF(T, n[2][1], n[2][2], n[2][3], fb) IN n[1] => nn[2] = n[2]
    /\ LET nm == MinimizeF(T, m[2][1], m[2][2], m[2][3], fb) IN (m[1] /\ n[1]) => nm[2] = n[2]

(* "never more script/region subtags than the original"                      *)
NeverLonger(T, l, s, r, fb) ==
    LET n == MinimizeF(T, l, s, r, fb) IN n[1] => Count(n[2]) <= Count(<<l, s, r>>)

(* ----- character direction ------------------------------------------------ *)
(* D == [ltr, rtl, ttb : sets of scripts;  rtlLangs : set of languages]      *)
Direction(T, D, l, s, r, likelyOn) ==
    IF s # None /\ s \in D.ltr THEN "LTR"
    ELSE IF s # None /\ s \in D.rtl THEN "RTL"
    ELSE IF s # None /\ s \in D.ttb THEN "TTB"
    ELSE IF l # UndL /\ l \in D.rtlLangs THEN
        (IF likelyOn
           THEN LET m == Maximize(T, l, None, r) IN
                IF m[1] /\ m[2][2] \in D.ltr THEN "LTR" ELSE "RTL"
           ELSE "RTL")
    ELSE "LTR"
=============================================================================
