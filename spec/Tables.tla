------------------------------- MODULE Tables -------------------------------
(***************************************************************************)
(* C18: the compiled lookup tables are exactly what the CLDR source data   *)
(* determine.  The harness (built with --cfg unic_locale_verif, which      *)
(* re-exports the private statics) dumps every entry of the six likely-    *)
(* subtags tables and the four direction tables as integers in little-     *)
(* endian bytes.  The dump is stepped through entry by entry:              *)
(*   - every integer decodes to a well-formed, canonically cased subtag of *)
(*     the kind its column holds (what from_raw_unchecked relies on);      *)
(*   - each table is strictly increasing in the INTEGER order of its keys  *)
(*     (what binary_search_by_key relies on);                              *)
(*   - the entry is the one CLDR determines for its key;                   *)
(* and, over the whole dump, the entry set equals the set derived from the *)
(* JSON files -- one entry per key, none missing, none extra.              *)
(*   env VERIF_TABLES  the ndjson dump                                     *)
(***************************************************************************)
EXTENDS Subtags, Cldr, Ascii

Dump == ndJsonDeserialize(IOEnv.VERIF_TABLES)

VARIABLE pos

LikelyTables == {"LANG_ONLY", "LANG_REGION", "LANG_SCRIPT", "SCRIPT_REGION", "SCRIPT_ONLY", "REGION_ONLY"}
DirTables == {"SCRIPTS_LTR", "SCRIPTS_RTL", "SCRIPTS_TTB", "LANGS_RTL"}

(* kinds of the key columns of each table                                   *)
KeyKinds(t) ==
    CASE t = "LANG_ONLY" -> <<"language">> [] t = "LANG_REGION" -> <<"language", "region">>
      [] t = "LANG_SCRIPT" -> <<"language", "script">> [] t = "SCRIPT_REGION" -> <<"script", "region">>
      [] t = "SCRIPT_ONLY" -> <<"script">> [] t = "REGION_ONLY" -> <<"region">>
      [] t \in {"SCRIPTS_LTR", "SCRIPTS_RTL", "SCRIPTS_TTB"} -> <<"script">> [] t = "LANGS_RTL" -> <<"language">>

(* an integer column: zero padding only at the end, the rest a canonical    *)
(* subtag of the expected kind                                              *)
IntOK(p, kind) ==
    LET txt == UnLE(p) IN
    /\ Len(p) = WidthOf(kind)
    /\ LE(txt, Len(p)) = p
    /\ IsKind(kind, txt) /\ CanonKind(kind, txt) = txt
Txt(p) == StrOfBytes(UnLE(p))

(* integer order of two little-endian byte strings of equal width           *)
IntLess(a, b) == \E j \in 1..Len(a) : a[j] < b[j] /\ \A m \in (j+1)..Len(a) : a[m] = b[m]
KeyLess(e1, e2) ==
    \/ IntLess(e1.k1, e2.k1)
    \/ e1.k1 = e2.k1 /\ e1.k2 # <<>> /\ IntLess(e1.k2, e2.k2)

KeyTriple(e) ==
    CASE e.t = "LANG_ONLY" -> <<Txt(e.k1), None, None>>
      [] e.t = "LANG_REGION" -> <<Txt(e.k1), None, Txt(e.k2)>>
      [] e.t = "LANG_SCRIPT" -> <<Txt(e.k1), Txt(e.k2), None>>
      [] e.t = "SCRIPT_REGION" -> <<UndL, Txt(e.k1), Txt(e.k2)>>
      [] e.t = "SCRIPT_ONLY" -> <<UndL, Txt(e.k1), None>>
      [] e.t = "REGION_ONLY" -> <<UndL, None, Txt(e.k1)>>
ValTriple(e) == <<Txt(e.v[1]), Txt(e.v[2]), Txt(e.v[3])>>

TableOfKey(k) ==
    IF k[1] # UndL THEN (IF k[2] # None THEN "LANG_SCRIPT" ELSE IF k[3] # None THEN "LANG_REGION" ELSE "LANG_ONLY")
    ELSE IF k[2] # None /\ k[3] # None THEN "SCRIPT_REGION"
    ELSE IF k[2] # None THEN "SCRIPT_ONLY" ELSE IF k[3] # None THEN "REGION_ONLY" ELSE "LANG_ONLY"

Expected == { <<TableOfKey(k), k, T[k]>> : k \in KeySet }
ExpectedDir == { <<"SCRIPTS_LTR", x>> : x \in D.ltr } \cup { <<"SCRIPTS_RTL", x>> : x \in D.rtl }
               \cup { <<"SCRIPTS_TTB", x>> : x \in D.ttb } \cup { <<"LANGS_RTL", x>> : x \in D.rtlLangs }

LikelyIdx == { j \in 1..Len(Dump) : Dump[j].t \in LikelyTables }
DirIdx == { j \in 1..Len(Dump) : Dump[j].t \in DirTables }
Found == { <<Dump[j].t, KeyTriple(Dump[j]), ValTriple(Dump[j])>> : j \in LikelyIdx }
FoundDir == { <<Dump[j].t, Txt(Dump[j].k1)>> : j \in DirIdx }

(* ----- per-entry judgement ------------------------------------------------- *)
Why(e, prev) ==
    IF e.t = "CLDR_VERSION" THEN (IF StrOfBytes(e.text) = CldrVersion THEN "" ELSE "cldr-version")
    ELSE IF ~(\A c \in 1..Len(KeyKinds(e.t)) : IntOK(IF c = 1 THEN e.k1 ELSE e.k2, KeyKinds(e.t)[c])) THEN "key-not-a-subtag"
    ELSE IF prev # <<>> /\ prev[1].t = e.t /\ ~KeyLess(prev[1], e) THEN "not-strictly-increasing"
    ELSE IF e.t \in DirTables THEN (IF <<e.t, Txt(e.k1)>> \in ExpectedDir THEN "" ELSE "direction-entry-not-in-cldr")
    ELSE IF ~(IntOK(e.v[1], "language") /\ IntOK(e.v[2], "script") /\ IntOK(e.v[3], "region")) THEN "value-not-full-well-formed-triple"
    ELSE IF <<e.t, KeyTriple(e), ValTriple(e)>> \notin Expected THEN "entry-not-in-cldr"
    ELSE ""

Init == pos = 1
Next == /\ pos <= Len(Dump)
        /\ LET e == Dump[pos]
               w == Why(e, IF pos = 1 THEN <<>> ELSE <<Dump[pos - 1]>>) IN
           IF w = "" THEN TRUE
           ELSE PrintT("MISMATCH " \o ToJson([line |-> pos, why |-> w, props |-> <<"C18">>, event |-> e]))
        /\ pos' = pos + 1
TraceSpec == Init /\ [][Next]_pos

(* whole-dump obligations, evaluated when the last entry has been consumed   *)
Whole ==
    /\ IF Found = Expected /\ Cardinality(LikelyIdx) = Cardinality(Expected) THEN TRUE
       ELSE PrintT("MISMATCH " \o ToJson([line |-> 0, why |-> "likely-tables-differ-from-cldr", props |-> <<"C18">>,
                    event |-> [missing |-> Cardinality(Expected \ Found), extra |-> Cardinality(Found \ Expected),
                               entries |-> Cardinality(LikelyIdx), keys |-> Cardinality(Expected),
                               example_missing |-> IF Expected \ Found = {} THEN <<>> ELSE CHOOSE x \in Expected \ Found : TRUE]]))
    /\ IF FoundDir = ExpectedDir /\ Cardinality(DirIdx) = Cardinality(ExpectedDir) THEN TRUE
       ELSE PrintT("MISMATCH " \o ToJson([line |-> 0, why |-> "direction-tables-differ-from-cldr", props |-> <<"C18">>,
                    event |-> [missing |-> Expected \ Expected, found |-> Cardinality(DirIdx), expected |-> Cardinality(ExpectedDir),
                               example_missing |-> IF ExpectedDir \ FoundDir = {} THEN <<>> ELSE CHOOSE x \in ExpectedDir \ FoundDir : TRUE]]))
    /\ IF \E j \in 1..Len(Dump) : Dump[j].t = "CLDR_VERSION" THEN TRUE
       ELSE PrintT("MISMATCH " \o ToJson([line |-> 0, why |-> "no-cldr-version", props |-> <<"C18">>, event |-> <<>>]))

TraceAccepted ==
    IF TLCGet("stats").diameter - 1 = Len(Dump) THEN Whole /\ PrintT("TRACE-ACCEPTED")
    ELSE PrintT(<<"TRACE-INCOMPLETE", TLCGet("stats").diameter - 1, Len(Dump)>>) /\ FALSE
=============================================================================
