------------------------------- MODULE Bytes -------------------------------
(***************************************************************************)
(* Byte-level vocabulary shared by every other module.  A byte is a        *)
(* number in 0..255, a string is a sequence of bytes.  Nothing about the   *)
(* library is assumed here: these are the ASCII facts UTS #35 relies on.   *)
(***************************************************************************)
EXTENDS Naturals, Sequences, FiniteSets, SequencesExt

IsUpperB(b) == b \in 65..90
IsLowerB(b) == b \in 97..122
IsAlpha(b)  == IsUpperB(b) \/ IsLowerB(b)
IsDigit(b)  == b \in 48..57
IsAlnum(b)  == IsAlpha(b) \/ IsDigit(b)
IsSep(b)    == b = 45 \/ b = 95            \* '-' or '_'

LowerB(b) == IF IsUpperB(b) THEN b + 32 ELSE b
UpperB(b) == IF IsLowerB(b) THEN b - 32 ELSE b

AllAlpha(s) == \A i \in 1..Len(s) : IsAlpha(s[i])
AllDigit(s) == \A i \in 1..Len(s) : IsDigit(s[i])
AllAlnum(s) == \A i \in 1..Len(s) : IsAlnum(s[i])

LowerSeq(s) == [i \in 1..Len(s) |-> LowerB(s[i])]
UpperSeq(s) == [i \in 1..Len(s) |-> UpperB(s[i])]
TitleSeq(s) == [i \in 1..Len(s) |-> IF i = 1 THEN UpperB(s[i]) ELSE LowerB(s[i])]

(* Split on '-' and '_': always at least one (possibly empty) token.       *)
SplitStep(acc, b) ==
    IF IsSep(b) THEN Append(acc, <<>>)
    ELSE [acc EXCEPT ![Len(acc)] = Append(@, b)]
Split(bs) == FoldLeft(SplitStep, << <<>> >>, bs)

(* Join tokens with '-'.                                                    *)
JoinStep(acc, t) == acc \o <<45>> \o t
Join(toks) == IF toks = <<>> THEN <<>> ELSE FoldLeft(JoinStep, toks[1], Tail(toks))

(* Join with an arbitrary separator per gap: seps[i] sits before toks[i+1] *)
JoinWith(toks, seps) ==
    LET f[i \in 1..Len(toks)] ==
          IF i = 1 THEN toks[1] ELSE f[i-1] \o <<seps[i-1]>> \o toks[i]
    IN IF toks = <<>> THEN <<>> ELSE f[Len(toks)]

(* Byte-lexicographic order (the order of the text, shorter prefix first). *)
SeqLess(a, b) ==
    \/ \E i \in 1..Len(a) :
          /\ i <= Len(b)
          /\ a[i] < b[i]
          /\ \A j \in 1..(i-1) : a[j] = b[j]
    \/ /\ Len(a) < Len(b)
       /\ \A j \in 1..Len(a) : a[j] = b[j]
SeqLeq(a, b) == a = b \/ SeqLess(a, b)

(* strictly increasing sequence of byte strings                             *)
StrictlySorted(s) == \A i \in 1..(Len(s)-1) : SeqLess(s[i], s[i+1])
WeaklySorted(s)   == \A i \in 1..(Len(s)-1) : SeqLeq(s[i], s[i+1])

SeqRange(s) == { s[i] : i \in 1..Len(s) }

(* the strictly increasing sequence holding exactly the elements of set S  *)
SortSet(S) == SetToSortSeq(S, SeqLess)
SortDedup(s) == SortSet(SeqRange(s))

(* insert into a weakly sorted sequence keeping it sorted (bag insert)     *)
InsertSorted(s, x) ==
    LET k == Cardinality({ i \in 1..Len(s) : SeqLeq(s[i], x) })
    IN SubSeq(s, 1, k) \o <<x>> \o SubSeq(s, k+1, Len(s))
SortBag(s) == FoldLeft(InsertSorted, <<>>, s)

(* remove the first occurrence of x                                        *)
RemoveOne(s, x) ==
    IF x \notin SeqRange(s) THEN s
    ELSE LET k == CHOOSE i \in 1..Len(s) : s[i] = x /\ \A j \in 1..(i-1) : s[j] # x
         IN SubSeq(s, 1, k-1) \o SubSeq(s, k+1, Len(s))

Flatten(ss) == FoldLeft(LAMBDA acc, t : acc \o t, <<>>, ss)
=============================================================================
