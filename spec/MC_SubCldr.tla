----------------------------- MODULE MC_SubCldr -----------------------------
(***************************************************************************)
(* The subtag productions on REAL subtags: every language, script and      *)
(* region that occurs in the bundled CLDR likely-subtags data (about 7600  *)
(* distinct texts), in their CLDR spelling, upper-cased and lower-cased.   *)
(* Each is one state, judged by the same predicates as the byte-level      *)
(* model (MC_Subtags) and printed as the same kind of case: verdict of all *)
(* four productions, canonical text, integer form.  The bounded byte       *)
(* alphabets cannot reach a specific word such as "dnu" or "Adlm"; the     *)
(* data can.                                                               *)
(***************************************************************************)
EXTENDS Subtags, Cldr, Ascii

VARIABLE sb

Words == { k[1] : k \in KeySet } \cup { T[k][1] : k \in KeySet }
         \cup (({ k[2] : k \in KeySet } \cup { T[k][2] : k \in KeySet }) \ {None})
         \cup (({ k[3] : k \in KeySet } \cup { T[k][3] : k \in KeySet }) \ {None})
         \cup ListedScripts \cup D.rtlLangs

(* words the library's own sources mention (VERIF_DICT, see MC_Dict.tla), and their   *)
(* NEIGHBOURS: each word extended by a letter / a few letters / a digit, prefixed, and  *)
(* shortened by one -- a special word matched by prefix, or a special word that should  *)
(* have been matched exactly ("und" vs "undef")                                          *)
DictRaw == JsonDeserialize(IOEnv.VERIF_DICT)
DictWords == { DictRaw[n] : n \in 1..Len(DictRaw) }
NearSuffixes == { B("a"), B("ef"), B("ers"), B("ulat"), B("ulate"), B("1"), B("Z") }
Neighbours(w) == { w \o x : x \in NearSuffixes } \cup { x \o w : x \in { B("a"), B("Zz") } }
                 \cup (IF Len(w) > 1 THEN { SubSeq(w, 1, Len(w) - 1) } ELSE {})
DictNear == { v \in UNION { Neighbours(w) \cup {w} : w \in DictWords } : Len(v) <= 9 }

Init == \/ \E w \in Words : sb \in { B(w), UpperSeq(B(w)), LowerSeq(B(w)) }
        \/ \E v \in DictNear : sb \in { v, UpperSeq(v), LowerSeq(v) }
Spec == Init /\ [][FALSE]_sb

KindSeq == <<"language", "script", "region", "variant">>

(* every CLDR word is a well-formed subtag of exactly the kinds its shape   *)
(* allows, and the data spells it canonically                               *)
WordBytesLower == { LowerSeq(B(w)) : w \in Words }       \* evaluated once (a constant definition)
WordsAreSubtags == (LowerSeq(sb) \in WordBytesLower) => \E k \in Kinds : IsKind(k, sb)
CanonFix == \A k \in Kinds : IsKind(k, sb) =>
               LET c == CanonKind(k, sb) IN IsKind(k, c) /\ CanonKind(k, c) = c /\ UnLE(LE(c, WidthOf(k))) = c

CaseRec ==
    [k |-> "sub", s |-> sb,
     is |-> [i \in 1..4 |-> IsKind(KindSeq[i], sb)],
     canon |-> [i \in 1..4 |-> IF IsKind(KindSeq[i], sb) THEN CanonKind(KindSeq[i], sb) ELSE <<>>],
     raw |-> [i \in 1..4 |-> IF IsKind(KindSeq[i], sb)
                              THEN LE(CanonKind(KindSeq[i], sb), WidthOf(KindSeq[i])) ELSE <<>>]]
EmitCase == PrintT("CASE " \o ToJson(CaseRec))
=============================================================================
