---------------------------- MODULE MC_Matches ----------------------------
(***************************************************************************)
(* matches(): all pairs over a product domain of identifiers, all four     *)
(* flag combinations, with and without extensions (C11).  No transitions:  *)
(* every initial state is one pair, checked against the laws and printed.  *)
(***************************************************************************)
EXTENDS Locale, Ascii, TLC, Json, IOUtils

CONSTANTS Kind,     \* "match": emit matches() cases; "cmp": emit comparison cases (C12)
          Domain    \* "base": 108 identifiers x 3 extension settings; "near": 500 identifiers whose fields are NEAR
                    \* COLLISIONS of one another (one byte apart at the first / middle / last position, one character
                    \* longer, three-digit regions sharing two digits): an implementation that compares packed
                    \* integers, prefixes or a few bytes at a time confuses exactly such neighbours
VARIABLES a, b, ea, eb, ph

Near == Domain = "near"
(* Domain = "dict": every language the library's own sources mention (VERIF_DICT) against every other one -- a table that  *)
(* maps one code onto another (legacy / alias codes) makes two DIFFERENT languages match                                   *)
Dict == Domain = "dict"
DictRaw == JsonDeserialize(IOEnv.VERIF_DICT)
DictLangs == { CanonLanguage(DictRaw[q]) : q \in { x \in 1..Len(DictRaw) : IsLanguage(DictRaw[x]) } }
Langs    == IF Dict THEN DictLangs \cup { B("und"), B("en") } ELSE IF Near THEN { B("und"), B("en"), B("em"), B("fn"), B("eng") } ELSE { B("und"), B("en"), B("de") }
Scripts  == IF Dict THEN { <<>>, B("Latn") } ELSE IF Near THEN { <<>>, B("Latn"), B("Lato"), B("Matn"), B("Laun") } ELSE { <<>>, B("Latn"), B("Cyrl") }
Regions  == IF Dict THEN { <<>> } ELSE IF Near THEN { <<>>, B("US"), B("UT"), B("VS"), B("001"), B("005"), B("011"), B("101"), B("150"), B("154") }
            ELSE { <<>>, B("US"), B("419") }
VarLists == IF Dict THEN { <<>> } ELSE IF Near THEN { <<>>, <<B("valencia")>> }
            ELSE { <<>>, <<B("valencia")>>, <<B("1996"), B("valencia")>>, <<B("1996")>> }
Ids == { [lang |-> l, script |-> s, region |-> r, variants |-> v] :
           l \in Langs, s \in Scripts, r \in Regions, v \in VarLists }
ExtKinds == IF Near \/ Dict THEN {"none"} ELSE {"none", "ut", "x"}

(* zero-arity constants: TLC evaluates them once                            *)
KwCa  == << <<B("ca"), <<B("buddhist")>>>> >>
TlFr  == << [LIDefault EXCEPT !.lang = B("fr")] >>
PrFoo == <<B("foo")>>
WithExt(id, e) ==
    CASE e = "none" -> LocOfLI(id)
      [] e = "ut" -> [LocOfLI(id) EXCEPT !.kw = KwCa, !.tlang = TlFr]
      [] e = "x"  -> [LocOfLI(id) EXCEPT !.priv = PrFoo]

(* two phases so that TLC's workers share the enumeration: pick a, then b   *)
Init == ph = 0 /\ a \in Ids /\ b = a /\ ea = "none" /\ eb = "none"
Next == /\ ph = 0 /\ ph' = 1 /\ UNCHANGED a
        /\ b' \in Ids /\ ea' \in ExtKinds /\ eb' \in ExtKinds
Spec == Init /\ [][Next]_<<a, b, ea, eb, ph>>

A == WithExt(a, ea)
Bv == WithExt(b, eb)
Flags == << <<FALSE, FALSE>>, <<FALSE, TRUE>>, <<TRUE, FALSE>>, <<TRUE, TRUE>> >>

(* ----- the laws of C11, on the specification ---------------------------- *)
Field(v, f) == CASE f = 1 -> v.lang [] f = 2 -> v.script [] f = 3 -> v.region [] f = 4 -> v.variants
EmptyOf(f) == IF f = 1 THEN Und ELSE <<>>
(* the definition, restated field by field                                  *)
Definition == \A i \in 1..4 : LET ra == Flags[i][1]  rb == Flags[i][2] IN
    MatchesLI(a, b, ra, rb) =
       \A f \in 1..4 : \/ Field(a, f) = Field(b, f)
                       \/ ra /\ Field(a, f) = EmptyOf(f)
                       \/ rb /\ Field(b, f) = EmptyOf(f)
NoRangeIsEquality == MatchesLI(a, b, FALSE, FALSE) = (a = b)
Symmetric == \A i \in 1..4 : MatchesLI(a, b, Flags[i][1], Flags[i][2]) = MatchesLI(b, a, Flags[i][2], Flags[i][1])
Reflexive == \A i \in 1..4 : MatchesLI(a, a, Flags[i][1], Flags[i][2])
Monotone == \A i \in 1..4 : MatchesLI(a, b, Flags[i][1], Flags[i][2]) =>
               MatchesLI(a, b, TRUE, Flags[i][2]) /\ MatchesLI(a, b, Flags[i][1], TRUE)
PrivateRule == \A i \in 1..4 :
    MatchesLoc(A, Bv, Flags[i][1], Flags[i][2]) =
        (ea # "x" /\ eb # "x" /\ MatchesLI(a, b, Flags[i][1], Flags[i][2]))

(* ----- C12 on the specification: the field-by-field order is a strict    *)
(* total order on identifiers, and equality is equality of canonical text   *)
OrderTotal == /\ (a = b) = (CmpLI(a, b) = "eq")
              /\ (CmpLI(a, b) = "lt") = (CmpLI(b, a) = "gt")
              /\ a # b => (LessLI(a, b) /\ ~LessLI(b, a)) \/ (LessLI(b, a) /\ ~LessLI(a, b))
OrderTransitive == (~Near /\ ~Dict /\ ea = "none" /\ eb = "none" /\ LessLI(a, b)) =>
                      \A c \in Ids : LessLI(b, c) => LessLI(a, c)
TextInjective == /\ (a = b) = (SerLI(a) = SerLI(b))
                 /\ (A = Bv) = (SerLoc(A) = SerLoc(Bv))
AbsentSortsFirst == /\ (a.lang = Und /\ b.lang # Und) => LessLI(a, b)
                    /\ (a.lang = b.lang /\ a.script = <<>> /\ b.script # <<>>) => LessLI(a, b)

CmpRec ==
    [k |-> "cmp", a |-> [start |-> SerLoc(A), ops |-> <<>>], b |-> [start |-> SerLoc(Bv), ops |-> <<>>],
     eq |-> (A = Bv), sa |-> SerLoc(A), sb |-> SerLoc(Bv), li_ord |-> CmpLI(a, b)]

CaseRec ==
    [k |-> "match", a |-> SerLoc(A), b |-> SerLoc(Bv),
     loc  |-> [i \in 1..4 |-> MatchesLoc(A, Bv, Flags[i][1], Flags[i][2])],
     li   |-> [i \in 1..4 |-> MatchesLI(a, b, Flags[i][1], Flags[i][2])],
     lang |-> [i \in 1..4 |-> FieldMatch(a.lang, b.lang, Flags[i][1], Flags[i][2], Und)]]
EmitCase == ph = 1 => PrintT("CASE " \o ToJson(IF Kind = "cmp" THEN CmpRec ELSE CaseRec))
=============================================================================
