------------------------------ MODULE MC_Iter ------------------------------
(***************************************************************************)
(* The STREAMING entry points: the glue between the two parser crates.     *)
(*                                                                         *)
(*   LanguageIdentifier::try_from_iter(iter, allow_extension)              *)
(*   parser::parse_language_identifier_from_iter(iter, allow_extension)    *)
(*                                                                         *)
(* take a peekable iterator of subtags -- the only part of the parsing API *)
(* with a cursor, i.e. with state that outlives the call.  Contract, as    *)
(* the locale parser relies on it:                                         *)
(*   - an exhausted iterator gives the default identifier;                 *)
(*   - the first subtag is always taken and must be a language;            *)
(*   - then the LONGEST run of subtags that fit the position automaton is  *)
(*     taken (Maximal), and the cursor is left AT the first subtag that    *)
(*     does not fit: it is peeked, never consumed (rest);                  *)
(*   - strict mode (allow_extension = false) fails iff something is left,  *)
(*     which makes it the same function as LanguageIdentifier::from_bytes  *)
(*     (StrictAgrees);                                                     *)
(*   - Locale parsing is the COMPOSITION of this reader and the extension  *)
(*     reader on the remaining subtags (Compositional): same verdict, the  *)
(*     identifier from the first, the extensions from the second.          *)
(* TLC checks the three laws on the specification for every token sequence *)
(* of the bounded space; every state is a case: the harness drives the     *)
(* real iterator API, compares verdict, value and the number of subtags    *)
(* left, and composes the two public readers against Locale::from_bytes.   *)
(* These entry points are #[doc(hidden)] / "not stable" and no listed      *)
(* property names them: a disagreement here is reported as drift (and as   *)
(* C01 if it is a panic), like the step model of the parser.               *)
(***************************************************************************)
EXTENDS Locale, Alphabets, TLC, Json

CONSTANTS Depth, Alpha
VARIABLES toks, allow

Alphabet == IF Alpha = "li" THEN TokensLISmall \cup { B("u"), B("x"), B("foo") } ELSE TokensLocSmall

(* the automaton state after each prefix; dead is absorbing, so the live    *)
(* prefixes are an initial segment                                          *)
Taken(ts) ==      \* precondition: IsLanguage(ts[1])
    LET f[i \in 1..Len(ts)] == IF i = 1 THEN LIStart(ts[1]) ELSE LIStep(f[i-1], ts[i])
        live == { i \in 1..Len(ts) : f[i].ph # "dead" }
        n == CHOOSE m \in live : \A q \in live : q <= m
    IN [n |-> n, st |-> f[n]]

TryFromIter(ts, allowExt) ==
    IF ts = <<>> THEN [ok |-> TRUE, err |-> "", val |-> LIDefault, rest |-> 0]
    ELSE IF ~IsLanguage(ts[1]) THEN [ok |-> FALSE, err |-> "InvalidLanguage", val |-> LIDefault, rest |-> Len(ts) - 1]
    ELSE LET t == Taken(ts) IN
         IF ~allowExt /\ t.n < Len(ts)
           THEN [ok |-> FALSE, err |-> "InvalidSubtag", val |-> LIDefault, rest |-> Len(ts) - t.n]
           ELSE [ok |-> TRUE, err |-> "", val |-> LINorm(t.st.acc), rest |-> Len(ts) - t.n]

Init == toks = <<>> /\ allow \in BOOLEAN
Next == /\ Len(toks) < Depth
        /\ (IF toks = <<>> THEN TRUE ELSE ParseLocTokens(toks).zone # "reject")      \* dead prefixes are leaves
        /\ \E t \in Alphabet : toks' = Append(toks, t)
        /\ UNCHANGED allow
Spec == Init /\ [][Next]_<<toks, allow>>

R == TryFromIter(toks, allow)

StrictAgrees == (toks # <<>> /\ ~allow) =>
    LET p == ParseLITokens(toks) IN R.ok = p.ok /\ R.err = p.err /\ R.val = p.val
Maximal == (toks # <<>> /\ allow /\ R.ok /\ R.rest > 0) =>
    LET t == Taken(toks) IN ~LIFits(t.st.ph, toks[t.n + 1])
PrefixIsParse == (toks # <<>> /\ R.ok) =>
    LET p == ParseLITokens(SubSeq(toks, 1, Len(toks) - R.rest)) IN p.ok /\ p.val = R.val
(* Locale parsing = identifier reader ; extension reader                    *)
(* (an EMPTY subtag is outside the law: the abstract grammar lets a reader that skips empty subtags carry on with the        *)
(* identifier behind it -- "en--US" may be rejected or read as en-US, C03 -- while the streaming reader stops at it)           *)
Compositional == (toks # <<>> /\ allow /\ \A i \in 1..Len(toks) : toks[i] # <<>>) =>
    LET L == ParseLocTokens(toks) IN
    IF ~R.ok THEN L.zone = "reject"
    ELSE LET rest == SubSeq(toks, Len(toks) - R.rest + 1, Len(toks)) IN
         IF rest = <<>> THEN L.zone = "accept" /\ L.val = LocOfLI(R.val)
         ELSE LET E == ParseExtTokens(rest) IN
              /\ (L.zone = "reject") = (E.zone = "reject")
              /\ L.zone # "reject" => L.val = [E.val EXCEPT !.id = R.val]

CaseRec == [k |-> "iter", toks |-> toks, allow |-> allow, ok |-> R.ok, err |-> R.err, val |-> R.val, rest |-> R.rest,
            loczone |-> IF toks = <<>> THEN "n/a" ELSE ParseLocTokens(toks).zone]
EmitCase == PrintT("CASE " \o ToJson(CaseRec))
=============================================================================
