------------------------------- MODULE LangId -------------------------------
(***************************************************************************)
(* Unicode language identifiers: abstract value, the position automaton    *)
(* that recognises them token by token, canonical serialisation, matching  *)
(* and ordering.                                                            *)
(*                                                                         *)
(* value == [lang, script, region, variants]                               *)
(*   lang     canonical bytes of the language, Und ("und") when empty      *)
(*   script   <<>> when absent, else canonical bytes                       *)
(*   region   <<>> when absent, else canonical bytes                       *)
(*   variants strictly increasing sequence of canonical variants           *)
(***************************************************************************)
EXTENDS Subtags

LIDefault == [lang |-> Und, script |-> <<>>, region |-> <<>>, variants |-> <<>>]

LIValueOK(v) ==
    /\ IsLanguage(v.lang) /\ v.lang = CanonLanguage(v.lang)
    /\ v.script = <<>> \/ (IsScript(v.script) /\ v.script = CanonScript(v.script))
    /\ v.region = <<>> \/ (IsRegion(v.region) /\ v.region = CanonRegion(v.region))
    /\ \A i \in 1..Len(v.variants) :
          IsVariant(v.variants[i]) /\ v.variants[i] = CanonVariant(v.variants[i])
    /\ StrictlySorted(v.variants)

(* ----- the position automaton ------------------------------------------ *)
(* phases: l1 after the language, l2 after a script, l3 after a region or   *)
(* a variant; "dead" once a token fits no production at its position.       *)
(* acc.variants collects variants in input order; LINorm sorts/de-dups.     *)
LIStart(t) == [ph |-> "l1", acc |-> [LIDefault EXCEPT !.lang = CanonLanguage(t)]]

LIFits(ph, t) ==
    \/ ph = "l1" /\ IsScript(t)
    \/ ph \in {"l1", "l2"} /\ IsRegion(t)
    \/ ph \in {"l1", "l2", "l3"} /\ IsVariant(t)

LITake(s, t) ==      \* precondition LIFits(s.ph, t)
    IF s.ph = "l1" /\ IsScript(t)
      THEN [s EXCEPT !.ph = "l2", !.acc.script = CanonScript(t)]
    ELSE IF s.ph \in {"l1", "l2"} /\ IsRegion(t)
      THEN [s EXCEPT !.ph = "l3", !.acc.region = CanonRegion(t)]
    ELSE [s EXCEPT !.ph = "l3", !.acc.variants = Append(@, CanonVariant(t))]

LIStep(s, t) ==
    IF s.ph = "dead" THEN s
    ELSE IF LIFits(s.ph, t) THEN LITake(s, t)
    ELSE [s EXCEPT !.ph = "dead"]

LINorm(acc) == [acc EXCEPT !.variants = SortDedup(@)]

(* Result of parsing a token list as a language identifier.  The error kind *)
(* is part of the contract (C02): InvalidLanguage exactly when the first    *)
(* token is not a language subtag.                                          *)
ParseLITokens(toks) ==
    IF ~IsLanguage(toks[1])
      THEN [ok |-> FALSE, err |-> "InvalidLanguage", val |-> LIDefault]
    ELSE LET s == FoldLeft(LIStep, LIStart(toks[1]), Tail(toks)) IN
         IF s.ph = "dead"
           THEN [ok |-> FALSE, err |-> "InvalidSubtag", val |-> LIDefault]
           ELSE [ok |-> TRUE, err |-> "", val |-> LINorm(s.acc)]

ParseLI(bytes) == ParseLITokens(Split(bytes))

(* ----- serialisation ---------------------------------------------------- *)
Opt(x) == IF x = <<>> THEN <<>> ELSE <<x>>
SerLITokens(v) == <<v.lang>> \o Opt(v.script) \o Opt(v.region) \o v.variants
SerLI(v) == Join(SerLITokens(v))

(* ----- construction from parts ----------------------------------------- *)
FromPartsLI(l, s, r, vs) == [lang |-> l, script |-> s, region |-> r, variants |-> SortDedup(vs)]

(* ----- matching (missing subtag = wildcard on the side flagged as range) *)
FieldMatch(a, b, ra, rb, empty) == (ra /\ a = empty) \/ (rb /\ b = empty) \/ a = b
MatchesLI(a, b, ra, rb) ==
    /\ FieldMatch(a.lang, b.lang, ra, rb, Und)
    /\ FieldMatch(a.script, b.script, ra, rb, <<>>)
    /\ FieldMatch(a.region, b.region, ra, rb, <<>>)
    /\ FieldMatch(a.variants, b.variants, ra, rb, <<>>)

(* ----- ordering: field by field, an absent subtag sorts first ---------- *)
LessOpt(a, b, empty) == a # b /\ (a = empty \/ (b # empty /\ SeqLess(a, b)))
LessSeqOfSeq(a, b) ==
    \/ \E i \in 1..Len(a) :
          /\ i <= Len(b)
          /\ SeqLess(a[i], b[i])
          /\ \A j \in 1..(i-1) : a[j] = b[j]
    \/ /\ Len(a) < Len(b)
       /\ \A j \in 1..Len(a) : a[j] = b[j]
LessLI(a, b) ==
    \/ LessOpt(a.lang, b.lang, Und)
    \/ a.lang = b.lang /\ LessOpt(a.script, b.script, <<>>)
    \/ a.lang = b.lang /\ a.script = b.script /\ LessOpt(a.region, b.region, <<>>)
    \/ a.lang = b.lang /\ a.script = b.script /\ a.region = b.region
         /\ LessSeqOfSeq(a.variants, b.variants)
CmpLI(a, b) == IF a = b THEN "eq" ELSE IF LessLI(a, b) THEN "lt" ELSE "gt"
=============================================================================
