-------------------------------- MODULE Cldr --------------------------------
(***************************************************************************)
(* The CLDR data bundled with the repository, loaded by TLC itself and     *)
(* turned into the table and the direction sets the abstract algorithms    *)
(* of Likely.tla work on.  Nothing is pre-digested outside TLA+: the       *)
(* likely-subtags file is read as it is, the 710 layout files are merely   *)
(* concatenated (one JSON document per line) by the orchestrator.          *)
(*   env VERIF_LIKELY  path of data/likelySubtags.json                     *)
(*   env VERIF_LAYOUT  path of the concatenated layout.json documents      *)
(***************************************************************************)
EXTENDS Likely, Json, IOUtils, TLC, SequencesExt

J  == JsonDeserialize(IOEnv.VERIF_LIKELY)
LS == J.supplemental.likelySubtags          \* record: key text -> value text
CldrVersion == J.supplemental.version["_cldrVersion"]

(* ----- text -> parts ----------------------------------------------------- *)
DashPos(str) == { i \in 1..Len(str) : SubSeq(str, i, i) = "-" \/ SubSeq(str, i, i) = "_" }
Parts(str) ==
    LET d == SetToSortSeq(DashPos(str) \cup {0, Len(str) + 1}, <)
    IN [i \in 1..(Len(d) - 1) |-> SubSeq(str, d[i] + 1, d[i+1] - 1)]
PartOfLen(ps, lens) ==
    LET c == { i \in 2..Len(ps) : Len(ps[i]) \in lens } IN
    IF c = {} THEN None ELSE ps[CHOOSE i \in c : \A j \in c : i <= j]
(* <<language, script, region>> of an identifier text (variants ignored)     *)
Triple(str) == LET ps == Parts(str) IN <<ps[1], PartOfLen(ps, {4}), PartOfLen(ps, {2, 3})>>
KeyText(k) == k[1] \o (IF k[2] # None THEN "-" \o k[2] ELSE "") \o (IF k[3] # None THEN "-" \o k[3] ELSE "")

(* ----- the likely-subtags table ------------------------------------------- *)
KeySet == { Triple(ks) : ks \in DOMAIN LS }
T == [k \in KeySet |-> Triple(LS[KeyText(k)])]

(* the text form and the triple form of the keys describe the same table     *)
KeysFaithful == /\ Cardinality(KeySet) = Cardinality(DOMAIN LS)
                /\ \A k \in KeySet : KeyText(k) \in DOMAIN LS
ValuesFull == \A k \in KeySet : IsFull(T[k][1], T[k][2], T[k][3]) /\ KeyText(T[k]) = LS[KeyText(k)]
ValuesConsistent == \A k \in KeySet :
    /\ k[1] = UndL \/ k[1] = T[k][1]
    /\ k[2] = None \/ k[2] = T[k][2]
    /\ k[3] = None \/ k[3] = T[k][3]

(* ----- layout (character order) data --------------------------------------- *)
Lay == ndJsonDeserialize(IOEnv.VERIF_LAYOUT)
NameOf(doc) == CHOOSE n \in DOMAIN doc.main : TRUE
OrderOf(doc) == doc.main[NameOf(doc)].layout.orientation.characterOrder
DirOf(order) == CASE order = "left-to-right" -> "LTR" [] order = "right-to-left" -> "RTL"
                  [] order = "top-to-bottom" -> "TTB"
(* <<locale name, direction>> for every locale but root                       *)
LayoutLocales == { <<NameOf(Lay[i]), DirOf(OrderOf(Lay[i]))>> : i \in { j \in 1..Len(Lay) : NameOf(Lay[j]) # "root" } }

ScriptsWith(dir) == { Triple(p[1])[2] : p \in { q \in LayoutLocales : q[2] = dir /\ Triple(q[1])[2] # None } }
D == [ltr |-> ScriptsWith("LTR"), rtl |-> ScriptsWith("RTL"), ttb |-> ScriptsWith("TTB"),
      rtlLangs |-> { Triple(p[1])[1] : p \in { q \in LayoutLocales : q[2] = "RTL" } }]
ListedScripts == D.ltr \cup D.rtl \cup D.ttb
DirsOfLang(l) == { p[2] : p \in { q \in LayoutLocales : Triple(q[1])[1] = l } }
MultiDir(l) == Cardinality(DirsOfLang(l)) > 1

OneDirectionPerScript == D.ltr \cap D.rtl = {} /\ D.ltr \cap D.ttb = {} /\ D.rtl \cap D.ttb = {}
AllDirs == {"LTR", "RTL", "TTB"}

(* <<direction>> when (l, s, r) is one of the CLDR layout locales, else <<>>    *)
CldrOf(l, s, r) == LET n == KeyText(<<l, s, r>>) IN
    IF \E p \in LayoutLocales : p[1] = n THEN << (CHOOSE p \in LayoutLocales : p[1] = n)[2] >> ELSE <<>>

(* what C14 allows for an identifier; cldr = <<>> or <<direction>> when the   *)
(* identifier is one of the CLDR layout locales                               *)
AllowedDir(l, s, r, likelyOn, cldr) ==
    IF s # None /\ s \in ListedScripts
      THEN { IF s \in D.ltr THEN "LTR" ELSE IF s \in D.rtl THEN "RTL" ELSE "TTB" }
    ELSE IF l \notin D.rtlLangs THEN {"LTR"}
    ELSE IF cldr # <<>> THEN
        (IF likelyOn \/ ~(s = None /\ MultiDir(l)) THEN {cldr[1]} ELSE AllDirs)
    ELSE AllDirs
=============================================================================
