-------------------------- MODULE LikelyProofsNeg --------------------------
(* negative control for the proof pipeline: a FALSE statement (maximize may *)
(* replace an undetermined language) must be rejected by the provers        *)
EXTENDS Likely, TLAPS
THEOREM Bogus ==
    ASSUME NEW T, NEW l, NEW s, NEW r, NEW fb
    PROVE  LET m == MaximizeF(T, l, s, r, fb) IN m[1] => m[2][1] = l
  BY DEF MaximizeF, Override
=============================================================================
