pub fn dump() {}
