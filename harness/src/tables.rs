//! C18: dump the compiled statics (re-exported under cfg(unic_locale_verif)) as ndjson events.
#[cfg(feature = "likelysubtags")]
pub fn dump() {
    use serde_json::{json, Value};
    use unic_langid_impl::likelysubtags::{CLDR_VERSION, LANG_ONLY, LANG_REGION, LANG_SCRIPT, REGION_ONLY, SCRIPT_ONLY, SCRIPT_REGION};
    use unic_langid_impl::verif_tables::*;
    fn b8(x: u64) -> Value { json!(x.to_le_bytes().to_vec()) }
    fn b4(x: u32) -> Value { json!(x.to_le_bytes().to_vec()) }
    fn val(v: &(Option<u64>, Option<u32>, Option<u32>)) -> Value {
        json!([v.0.map(b8).unwrap_or(json!([])), v.1.map(b4).unwrap_or(json!([])), v.2.map(b4).unwrap_or(json!([]))])
    }
    let none = json!([[], [], []]);
    println!("{}", json!({"t":"CLDR_VERSION","i":0,"text": CLDR_VERSION.bytes().collect::<Vec<u8>>(),"k1":[],"k2":[],"v": none}));
    for (i, (k, v)) in LANG_ONLY.iter().enumerate() { println!("{}", json!({"t":"LANG_ONLY","i":i,"k1":b8(*k),"k2":[],"v":val(v)})); }
    for (i, (k, k2, v)) in LANG_REGION.iter().enumerate() { println!("{}", json!({"t":"LANG_REGION","i":i,"k1":b8(*k),"k2":b4(*k2),"v":val(v)})); }
    for (i, (k, k2, v)) in LANG_SCRIPT.iter().enumerate() { println!("{}", json!({"t":"LANG_SCRIPT","i":i,"k1":b8(*k),"k2":b4(*k2),"v":val(v)})); }
    for (i, (k, k2, v)) in SCRIPT_REGION.iter().enumerate() { println!("{}", json!({"t":"SCRIPT_REGION","i":i,"k1":b4(*k),"k2":b4(*k2),"v":val(v)})); }
    for (i, (k, v)) in SCRIPT_ONLY.iter().enumerate() { println!("{}", json!({"t":"SCRIPT_ONLY","i":i,"k1":b4(*k),"k2":[],"v":val(v)})); }
    for (i, (k, v)) in REGION_ONLY.iter().enumerate() { println!("{}", json!({"t":"REGION_ONLY","i":i,"k1":b4(*k),"k2":[],"v":val(v)})); }
    for (i, k) in SCRIPTS_CHARACTER_DIRECTION_LTR.iter().enumerate() { println!("{}", json!({"t":"SCRIPTS_LTR","i":i,"k1":b4(*k),"k2":[],"v":none})); }
    for (i, k) in SCRIPTS_CHARACTER_DIRECTION_RTL.iter().enumerate() { println!("{}", json!({"t":"SCRIPTS_RTL","i":i,"k1":b4(*k),"k2":[],"v":none})); }
    for (i, k) in SCRIPTS_CHARACTER_DIRECTION_TTB.iter().enumerate() { println!("{}", json!({"t":"SCRIPTS_TTB","i":i,"k1":b4(*k),"k2":[],"v":none})); }
    for (i, k) in LANGS_CHARACTER_DIRECTION_RTL.iter().enumerate() { println!("{}", json!({"t":"LANGS_RTL","i":i,"k1":b8(*k),"k2":[],"v":none})); }
}
#[cfg(not(feature = "likelysubtags"))]
pub fn dump() {
    eprintln!("tables: built without the likelysubtags feature");
    std::process::exit(2);
}
