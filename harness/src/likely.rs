//! C06/C07/C08/C14: likely-subtags and direction cases.
use crate::proj::*;
use crate::rec::*;
use serde_json::{json, Value};
use unic_langid_impl::subtags::{Language, Region, Script, Variant};
use unic_langid_impl::{likelysubtags, LanguageIdentifier};
use unic_locale_impl::Locale;

type Triple = (Language, Option<Script>, Option<Region>);

fn triple_json(t: &Triple) -> Value {
    json!([t.0.as_str(), t.1.map(|s| s.as_str().to_string()).unwrap_or_default(),
           t.2.map(|s| s.as_str().to_string()).unwrap_or_default()])
}

fn mk(l: &[u8], s: &[u8], rg: &[u8]) -> Option<Triple> {
    let l = Language::from_bytes(l).ok()?;
    let s = if s.is_empty() { None } else { Some(Script::from_bytes(s).ok()?) };
    let rg = if rg.is_empty() { None } else { Some(Region::from_bytes(rg).ok()?) };
    Some((l, s, rg))
}

fn outcome(x: Option<Triple>, input: &Triple) -> Value {
    match x {
        Some(t) => json!([true, triple_json(&t)]),
        None => json!([false, triple_json(input)]),
    }
}

fn allowed(list: &Value, got: &Value) -> bool {
    list.as_array().map(|a| a.iter().any(|x| x == got)).unwrap_or(false)
}

pub fn check_likely(r: &mut Recorder, c: &Value) {
    r.stat("likely");
    let (l, s, rg) = (unbytes(&c["l"]), unbytes(&c["s"]), unbytes(&c["r"]));
    let t = match mk(&l, &s, &rg) {
        Some(t) => t,
        None => {
            r.dis(&["C15"], "likely-subtag-rejected", json!({"case": c}));
            return;
        }
    };
    let name = format!("{}-{}-{}", show(&l), show(&s), show(&rg));
    let res = guard(|| {
        let mx = likelysubtags::maximize(t.0, t.1, t.2);
        let mn = likelysubtags::minimize(t.0, t.1, t.2);
        (mx, mn, likelysubtags::maximize(t.0, t.1, t.2), likelysubtags::minimize(t.0, t.1, t.2))
    });
    let (mx, mn) = match res {
        Ok((mx, mn, mx2, mn2)) => {
            if mx2 != mx { r.dis(&["C06"], "maximize-second-call-differs", json!({"triple": name})); }
            if mn2 != mn { r.dis(&["C08"], "minimize-second-call-differs", json!({"triple": name})); }
            (mx, mn)
        }
        Err(at) => {
            r.dis(&["C01"], &format!("panic@{}", short_at(&at)), json!({"triple": name, "panic": at}));
            return;
        }
    };
    let omx = outcome(mx, &t);
    let omn = outcome(mn, &t);
    if !allowed(&c["max"], &omx) {
        r.dis(&["C06"], "maximize-answer", json!({"triple": name, "l": c["l"], "s": c["s"], "r": c["r"], "allowed": c["max"], "observed": omx}));
    }
    if !allowed(&c["min"], &omn) {
        r.dis(&["C08"], "minimize-answer", json!({"triple": name, "l": c["l"], "s": c["s"], "r": c["r"], "allowed": c["min"], "observed": omn}));
    }
    // the object-level methods: same answer, bool = changed, variants/extensions untouched (C07/C08)
    let variants: Vec<Variant> = vec![Variant::from_bytes(b"valencia").unwrap(), Variant::from_bytes(b"1996").unwrap()];
    let res2 = guard(|| {
        let mut li = LanguageIdentifier::from_parts(t.0, t.1, t.2, &variants);
        let before = li.clone();
        let changed = li.maximize();
        let once = li.clone();
        let changed2 = li.maximize();
        let twice = li.clone();
        let mut m = before.clone();
        let mchanged = m.minimize();
        let monce = m.clone();
        let mchanged2 = m.minimize();
        let mtwice = m.clone();
        let mut mm = once.clone();
        mm.minimize();
        let mut back = monce.clone();
        back.maximize();
        let mut loc = Locale::from_bytes(b"und-u-ca-buddhist-t-en-h0-hybrid-x-foo").unwrap();
        loc.id = before.clone();
        let lser_before = loc.extensions.to_string();
        let lchanged = loc.id.maximize();
        let lser_after = loc.extensions.to_string();
        (before, changed, once, changed2, twice, mchanged, monce, mchanged2, mtwice, mm, back, lchanged, lser_before == lser_after, loc)
    });
    match res2 {
        Err(at) => r.dis(&["C01"], &format!("panic@{}", short_at(&at)), json!({"triple": name, "panic": at})),
        Ok((before, changed, once, changed2, twice, mchanged, monce, mchanged2, mtwice, mm, back, lchanged, ext_same, loc)) => {
            let tj = |li: &LanguageIdentifier| triple_json(&(li.language, li.script, li.region));
            let vs = |li: &LanguageIdentifier| li.variants().map(|v| v.as_str().to_string()).collect::<Vec<_>>();
            if json!([changed, tj(&once)]) != omx {
                r.dis(&["C06", "C07"], "method-maximize-differs-from-function", json!({"triple": name, "function": omx, "method": [changed, tj(&once)]}));
            }
            if vs(&once) != vs(&before) || !ext_same || lchanged != changed || loc.id != once {
                r.dis(&["C07"], "maximize-touches-variants-or-extensions", json!({"triple": name, "before": before.to_string(), "after": once.to_string(), "locale": loc.to_string()}));
            }
            if changed {
                let keeps = (before.language.is_empty() || before.language == once.language)
                    && (before.script.is_none() || before.script == once.script)
                    && (before.region.is_none() || before.region == once.region);
                let full = !once.language.is_empty() && once.script.is_some() && once.region.is_some();
                if !keeps || !full {
                    r.dis(&["C07"], "maximize-drops-or-leaves-unfilled", json!({"triple": name, "before": before.to_string(), "after": once.to_string()}));
                }
            } else if once != before {
                r.dis(&["C07"], "maximize-false-but-changed", json!({"triple": name, "before": before.to_string(), "after": once.to_string()}));
            }
            if twice != once || (changed2 && twice != once) {
                r.dis(&["C07"], "maximize-not-idempotent", json!({"triple": name, "once": once.to_string(), "twice": twice.to_string()}));
            }
            if json!([mchanged, tj(&monce)]) != omn {
                r.dis(&["C08"], "method-minimize-differs-from-function", json!({"triple": name, "function": omn, "method": [mchanged, tj(&monce)]}));
            }
            if vs(&monce) != vs(&before) {
                r.dis(&["C08"], "minimize-touches-variants", json!({"triple": name, "before": before.to_string(), "after": monce.to_string()}));
            }
            if !mchanged && monce != before {
                r.dis(&["C08"], "minimize-false-but-changed", json!({"triple": name, "before": before.to_string(), "after": monce.to_string()}));
            }
            if mtwice != monce {
                r.dis(&["C08"], "minimize-not-idempotent", json!({"triple": name, "once": monce.to_string(), "twice": mtwice.to_string(), "changed2": mchanged2}));
            }
            if mchanged && mm != monce {
                r.dis(&["C08"], "minimize-after-maximize-differs", json!({"triple": name, "min": monce.to_string(), "min_of_max": mm.to_string()}));
            }
            if mchanged {
                // meaning preserved: maximizes to the same triple as the original
                let mut orig_max = before.clone();
                orig_max.maximize();
                if back != orig_max {
                    r.dis(&["C08"], "minimize-changes-meaning", json!({"triple": name, "max_of_orig": orig_max.to_string(), "max_of_min": back.to_string()}));
                }
                let cnt = |li: &LanguageIdentifier| li.script.is_some() as u8 + li.region.is_some() as u8;
                if cnt(&monce) > cnt(&before) {
                    r.dis(&["C08"], "minimize-lengthens", json!({"triple": name, "before": before.to_string(), "after": monce.to_string()}));
                }
            }
        }
    }
}

