//! C14: character_direction cases (built with and without the likelysubtags feature).
use crate::proj::*;
use crate::rec::*;
use serde_json::{json, Value};
use unic_langid_impl::subtags::Variant;
use unic_langid_impl::{CharacterDirection, LanguageIdentifier};
use unic_locale_impl::Locale;

fn allowed(list: &Value, got: &Value) -> bool {
    list.as_array().map(|a| a.iter().any(|x| x == got)).unwrap_or(false)
}

pub fn dir_name(d: CharacterDirection) -> &'static str {
    match d {
        CharacterDirection::LTR => "LTR",
        CharacterDirection::RTL => "RTL",
        CharacterDirection::TTB => "TTB",
    }
}

pub fn check_dir(r: &mut Recorder, c: &Value) {
    r.stat("dir");
    let id = unbytes(&c["id"]);
    let key = if cfg!(feature = "likelysubtags") { "on" } else { "off" };
    let res = guard(|| {
        let li = LanguageIdentifier::from_bytes(&id);
        li.map(|li| {
            let d = li.character_direction();
            let mut with_v = li.clone();
            with_v.set_variants(&[Variant::from_bytes(b"valencia").unwrap()]);
            let d2 = with_v.character_direction();
            let loc = Locale::from(li.clone());
            let d3 = loc.id.character_direction();
            (d, d2, d3)
        })
    });
    match res {
        Err(at) => r.dis(&["C01"], &format!("panic@{}", short_at(&at)), json!({"id": show(&id), "panic": at})),
        Ok(Err(e)) => r.dis(&["C02", "C14"], "dir-id-does-not-parse", json!({"id": show(&id), "err": format!("{:?}", e)})),
        Ok(Ok((d, d2, d3))) => {
            if !allowed(&c[key], &json!(dir_name(d))) {
                r.dis(&["C14"], "direction", json!({"id": show(&id), "likelysubtags": key, "allowed": c[key], "observed": dir_name(d), "why": c["why"]}));
            }
            if d2 != d || d3 != d {
                r.dis(&["C14"], "direction-depends-on-variants", json!({"id": show(&id), "plain": dir_name(d), "with_variant": dir_name(d2)}));
            }
        }
    }
}
