//! C14: character_direction cases (built with and without the likelysubtags feature).
use crate::proj::*;
use crate::rec::*;
use serde_json::{json, Value};
use unic_langid_impl::subtags::Variant;
use unic_langid_impl::{CharacterDirection, LanguageIdentifier};
use unic_locale_impl::Locale;

fn allowed(list: &Value, got: &Value) -> bool {
    list.as_array().map(|a| a.iter().any(|x| x == got)).unwrap_or(false)
}

pub fn dir_name(d: CharacterDirection) -> &'static str {
    match d {
        CharacterDirection::LTR => "LTR",
        CharacterDirection::RTL => "RTL",
        CharacterDirection::TTB => "TTB",
    }
}

pub fn check_dir(r: &mut Recorder, c: &Value) {
    r.stat("dir");
    let id = unbytes(&c["id"]);
    let key = if cfg!(feature = "likelysubtags") { "on" } else { "off" };
    let res = guard(|| {
        let li = LanguageIdentifier::from_bytes(&id);
        li.map(|li| {
            let d = li.character_direction();
            let d_again = li.character_direction();
            let mut with_v = li.clone();
            with_v.set_variants(&[Variant::from_bytes(b"valencia").unwrap()]);
            let d2 = with_v.character_direction();
            let loc = Locale::from(li.clone());
            let d3 = loc.id.character_direction();
            (d, d2, d3, d_again)
        })
    });
    match res {
        Err(at) => r.dis(&["C01"], &format!("panic@{}", short_at(&at)), json!({"id": show(&id), "panic": at})),
        Ok(Err(e)) => r.dis(&["C02", "C14"], "dir-id-does-not-parse", json!({"id": show(&id), "err": format!("{:?}", e)})),
        Ok(Ok((d, d2, d3, d_again))) => {
            if d_again != d {
                r.dis(&["C14"], "direction-second-call-differs", json!({"id": show(&id), "first": dir_name(d), "second": dir_name(d_again)}));
            }
            if !allowed(&c[key], &json!(dir_name(d))) {
                r.dis(&["C14"], "direction", json!({"id": show(&id), "likelysubtags": key, "allowed": c[key], "observed": dir_name(d), "why": c["why"]}));
            }
            if d2 != d || d3 != d {
                r.dis(&["C14"], "direction-depends-on-variants", json!({"id": show(&id), "plain": dir_name(d), "with_variant": dir_name(d2)}));
            }
        }
    }
}

/// MC_Stateless.tla: a sequence of maximize / minimize / character_direction calls about one language family, run in
/// order on this thread.  Every call must get an answer the property allows for it on its own, whatever came before it:
/// a memo, scratch buffer or lazily built index that leaks from one call into the next shows up here (C06, C08, C14).
pub fn check_seq(r: &mut Recorder, c: &Value) {
    use unic_langid_impl::subtags::{Language, Region, Script};
    r.stat("seq");
    let l = unbytes(&c["l"]);
    let steps = c["steps"].as_array().cloned().unwrap_or_default();
    let lang = match Language::from_bytes(&l) {
        Ok(x) => x,
        Err(_) => {
            r.dis(&["C15"], "seq-language-rejected", json!({"l": show(&l)}));
            return;
        }
    };
    let dkey = if cfg!(feature = "likelysubtags") { "on" } else { "off" };
    let mut trail: Vec<Value> = Vec::new();
    for st in steps.iter() {
        let (s, rg) = (unbytes(&st["s"]), unbytes(&st["r"]));
        let script = if s.is_empty() { None } else { Script::from_bytes(&s).ok() };
        let region = if rg.is_empty() { None } else { Region::from_bytes(&rg).ok() };
        if (script.is_none() && !s.is_empty()) || (region.is_none() && !rg.is_empty()) {
            r.dis(&["C15"], "seq-subtag-rejected", json!({"s": show(&s), "r": show(&rg)}));
            return;
        }
        let op = st["op"].as_str().unwrap_or("?").to_string();
        let name = format!("{}({}-{}-{})", op, show(&l), show(&s), show(&rg));
        trail.push(json!(name));
        r.stat("seq_step");
        match op.as_str() {
            "dir" => {
                let res = guard(|| { let li = LanguageIdentifier::from_parts(lang, script, region, &[]); (li.character_direction(), li.character_direction()) });
                match res {
                    Err(at) => { r.dis(&["C01"], &format!("panic@{}", short_at(&at)), json!({"sequence": trail, "panic": at})); return; }
                    Ok((d, d_again)) => {
                        if d_again != d {
                            r.dis(&["C14"], "direction-second-call-differs", json!({"sequence": trail, "first": dir_name(d), "second": dir_name(d_again)}));
                            return;
                        }
                        if !allowed(&st[dkey], &json!(dir_name(d))) {
                            r.dis(&["C14"], if trail.len() > 1 { "direction-depends-on-earlier-calls" } else { "direction" },
                                  json!({"sequence": trail, "likelysubtags": dkey, "allowed": st[dkey], "observed": dir_name(d)}));
                            return;
                        }
                    }
                }
            }
            #[cfg(feature = "likelysubtags")]
            "max" | "min" => {
                use unic_langid_impl::likelysubtags;
                let is_max = op == "max";
                let res = guard(|| if is_max { likelysubtags::maximize(lang, script, region) } else { likelysubtags::minimize(lang, script, region) });
                let tj = |t: &(Language, Option<Script>, Option<Region>)| json!([t.0.as_str(), t.1.map(|x| x.as_str().to_string()).unwrap_or_default(),
                                                                                 t.2.map(|x| x.as_str().to_string()).unwrap_or_default()]);
                match res {
                    Err(at) => { r.dis(&["C01"], &format!("panic@{}", short_at(&at)), json!({"sequence": trail, "panic": at})); return; }
                    Ok(x) => {
                        let got = match x { Some(t) => json!([true, tj(&t)]), None => json!([false, tj(&(lang, script, region))]) };
                        let list = if is_max { &st["max"] } else { &st["min"] };
                        if !allowed(list, &got) {
                            let what = format!("{}-{}", if is_max { "maximize" } else { "minimize" }, if trail.len() > 1 { "depends-on-earlier-calls" } else { "answer" });
                            r.dis(&[if is_max { "C06" } else { "C08" }], &what, json!({"sequence": trail, "allowed": list, "observed": got}));
                            return;
                        }
                    }
                }
            }
            _ => {}
        }
    }
}
