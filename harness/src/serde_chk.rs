//! C19: the serde form is the canonical string and round-trips.
use crate::proj::*;
use crate::rec::*;
use serde_json::{json, Value};
use unic_langid_impl::LanguageIdentifier;

fn uescape(s: &str) -> String {
    let mut out = String::from("\"");
    for ch in s.chars() {
        let mut buf = [0u16; 2];
        for u in ch.encode_utf16(&mut buf) {
            out.push_str(&format!("\\u{:04x}", u));
        }
    }
    out.push('"');
    out
}

pub fn check_serde(r: &mut Recorder, input: &[u8], exp: &Value) {
    let s = match std::str::from_utf8(input) {
        Ok(s) => s,
        Err(_) => return,
    };
    let exp_ok = exp["ok"].as_bool().unwrap_or(false);
    let plain = serde_json::to_string(s).unwrap();
    let texts = [plain, uescape(s)];
    for (i, text) in texts.iter().enumerate() {
        r.stat("serde_from_str");
        match guard(|| serde_json::from_str::<LanguageIdentifier>(text)) {
            Err(at) => r.dis(&["C01", "C19"], &format!("panic@{}", short_at(&at)), json!({"json": text, "panic": at})),
            Ok(Ok(v)) => {
                if !exp_ok {
                    r.dis(&["C19"], "serde-accepts-ill-formed", json!({"json": text, "observed": v.to_string()}));
                } else if proj_li(&v) != exp["val"] {
                    r.dis(&["C19"], "serde-value", json!({"json": text, "expected": exp["val"], "observed": proj_li(&v)}));
                } else if i == 0 {
                    match guard(|| serde_json::to_string(&v)) {
                        Ok(Ok(out)) => {
                            let want = format!("\"{}\"", String::from_utf8_lossy(&unbytes(&exp["ser"])));
                            if out != want {
                                r.dis(&["C19"], "serde-serialised-form", json!({"json": text, "expected": want, "observed": out}));
                            }
                            match guard(|| serde_json::from_str::<LanguageIdentifier>(&out)) {
                                Ok(Ok(v2)) if v2 == v => {}
                                other => r.dis(&["C19"], "serde-roundtrip", json!({"json": out, "observed": format!("{:?}", other.map(|x| x.map(|y| y.to_string()).map_err(|e| e.to_string())))})),
                            }
                            match guard(|| serde_json::to_value(&v)) {
                                Ok(Ok(Value::String(vs))) if format!("\"{}\"", vs) == want => {}
                                other => r.dis(&["C19"], "serde-to-value", json!({"expected": want, "observed": format!("{:?}", other)})),
                            }
                            other_doors(r, &v, &want, text);
                            binary_format(r, s, exp_ok, Some((&v, &want)));
                        }
                        other => r.dis(&["C19"], "serde-serialise-failed", json!({"json": text, "observed": format!("{:?}", other)})),
                    }
                }
            }
            Ok(Err(_)) => {
                if exp_ok {
                    r.dis(&["C19"], "serde-rejects-well-formed", json!({"json": text, "expected": exp["val"]}));
                }
            }
        }
    }
    if !exp_ok {
        binary_format(r, s, exp_ok, None);
    }
    // a reader-based deserializer hands the visitor owned / scratch strings instead of borrowed ones
    r.stat("serde_from_reader");
    match guard(|| serde_json::from_reader::<_, LanguageIdentifier>(texts[0].as_bytes())) {
        Err(at) => r.dis(&["C01", "C19"], &format!("panic@{}", short_at(&at)), json!({"json": texts[0], "api": "from_reader", "panic": at})),
        Ok(Ok(v)) => {
            if !exp_ok || proj_li(&v) != exp["val"] {
                r.dis(&["C19"], "serde-from-reader", json!({"json": texts[0], "expected": exp, "observed": proj_li(&v)}));
            }
        }
        Ok(Err(_)) => {
            if exp_ok {
                r.dis(&["C19"], "serde-from-reader-rejects-well-formed", json!({"json": texts[0]}));
            }
        }
    }
    r.stat("serde_from_value");
    match guard(|| serde_json::from_value::<LanguageIdentifier>(Value::String(s.to_string()))) {
        Err(at) => r.dis(&["C01", "C19"], &format!("panic@{}", short_at(&at)), json!({"value": s, "panic": at})),
        Ok(Ok(v)) => {
            if !exp_ok || proj_li(&v) != exp["val"] {
                r.dis(&["C19"], "serde-from-value", json!({"value": s, "expected": exp, "observed": proj_li(&v)}));
            }
        }
        Ok(Err(_)) => {
            if exp_ok {
                r.dis(&["C19"], "serde-from-value-rejects-well-formed", json!({"value": s}));
            }
        }
    }
}

/// A data format that is NOT human readable (`is_human_readable() == false`, as bincode / postcard / CBOR report): the
/// property speaks of the serialised form, not of JSON.  The serializer accepts exactly one `serialize_str` and records it;
/// the deserializer hands a string to the visitor.
mod binfmt {
    use serde::de::{self, Visitor};
    use serde::ser::{self, Impossible};
    use std::fmt;

    #[derive(Debug)]
    pub struct E(pub String);
    impl fmt::Display for E { fn fmt(&self, f: &mut fmt::Formatter) -> fmt::Result { write!(f, "{}", self.0) } }
    impl std::error::Error for E {}
    impl ser::Error for E { fn custom<T: fmt::Display>(m: T) -> Self { E(m.to_string()) } }
    impl de::Error for E { fn custom<T: fmt::Display>(m: T) -> Self { E(m.to_string()) } }

    pub struct StrOnly;
    macro_rules! no { ($($f:ident($($t:ty),*);)*) => { $( fn $f(self $(, _: $t)*) -> Result<String, E> { Err(E(concat!("not a string: ", stringify!($f)).into())) } )* } }
    impl ser::Serializer for StrOnly {
        type Ok = String; type Error = E;
        type SerializeSeq = Impossible<String, E>; type SerializeTuple = Impossible<String, E>;
        type SerializeTupleStruct = Impossible<String, E>; type SerializeTupleVariant = Impossible<String, E>;
        type SerializeMap = Impossible<String, E>; type SerializeStruct = Impossible<String, E>;
        type SerializeStructVariant = Impossible<String, E>;
        fn is_human_readable(&self) -> bool { false }
        fn serialize_str(self, v: &str) -> Result<String, E> { Ok(v.to_string()) }
        no! { serialize_bool(bool); serialize_i8(i8); serialize_i16(i16); serialize_i32(i32); serialize_i64(i64); serialize_u8(u8);
              serialize_u16(u16); serialize_u32(u32); serialize_u64(u64); serialize_f32(f32); serialize_f64(f64); serialize_char(char);
              serialize_bytes(&[u8]); serialize_none(); serialize_unit(); serialize_unit_struct(&'static str);
              serialize_unit_variant(&'static str, u32, &'static str); }
        fn serialize_some<T: ?Sized + ser::Serialize>(self, _: &T) -> Result<String, E> { Err(E("not a string: some".into())) }
        fn serialize_newtype_struct<T: ?Sized + ser::Serialize>(self, _: &'static str, _: &T) -> Result<String, E> { Err(E("not a string: newtype".into())) }
        fn serialize_newtype_variant<T: ?Sized + ser::Serialize>(self, _: &'static str, _: u32, _: &'static str, _: &T) -> Result<String, E> { Err(E("not a string: variant".into())) }
        fn serialize_seq(self, _: Option<usize>) -> Result<Self::SerializeSeq, E> { Err(E("not a string: seq".into())) }
        fn serialize_tuple(self, _: usize) -> Result<Self::SerializeTuple, E> { Err(E("not a string: tuple".into())) }
        fn serialize_tuple_struct(self, _: &'static str, _: usize) -> Result<Self::SerializeTupleStruct, E> { Err(E("not a string: tuple struct".into())) }
        fn serialize_tuple_variant(self, _: &'static str, _: u32, _: &'static str, _: usize) -> Result<Self::SerializeTupleVariant, E> { Err(E("not a string".into())) }
        fn serialize_map(self, _: Option<usize>) -> Result<Self::SerializeMap, E> { Err(E("not a string: map".into())) }
        fn serialize_struct(self, _: &'static str, _: usize) -> Result<Self::SerializeStruct, E> { Err(E("not a string: struct".into())) }
        fn serialize_struct_variant(self, _: &'static str, _: u32, _: &'static str, _: usize) -> Result<Self::SerializeStructVariant, E> { Err(E("not a string".into())) }
    }

    pub struct StrDe<'a>(pub &'a str);
    impl<'de, 'a> de::Deserializer<'de> for StrDe<'a> {
        type Error = E;
        fn is_human_readable(&self) -> bool { false }
        fn deserialize_any<V: Visitor<'de>>(self, v: V) -> Result<V::Value, E> { v.visit_str(self.0) }
        serde::forward_to_deserialize_any! { bool i8 i16 i32 i64 i128 u8 u16 u32 u64 u128 f32 f64 char str string bytes byte_buf option unit
            unit_struct newtype_struct seq tuple tuple_struct map struct enum identifier ignored_any }
    }
}

/// the serialised form and the reading of a string do not depend on the data format being "human readable"
fn binary_format(r: &mut Recorder, s: &str, exp_ok: bool, v: Option<(&LanguageIdentifier, &str)>) {
    use serde::{Deserialize, Serialize};
    r.stat("serde_binary_format");
    if let Some((v, want)) = v {
        match guard(|| v.serialize(binfmt::StrOnly)) {
            Ok(Ok(out)) if format!("\"{}\"", out) == want => {}
            other => r.dis(&["C19"], "serde-serialised-form-in-a-binary-format", json!({"expected": want, "observed": format!("{:?}", other)})),
        }
    }
    match guard(|| LanguageIdentifier::deserialize(binfmt::StrDe(s))) {
        Err(at) => r.dis(&["C01", "C19"], &format!("panic@{}", short_at(&at)), json!({"string": s, "api": "deserialize (binary format)", "panic": at})),
        Ok(Ok(_)) if exp_ok => {}
        Ok(Err(_)) if !exp_ok => {}
        Ok(x) => r.dis(&["C19"], "serde-binary-format-verdict-differs-from-parsing", json!({"string": s, "parses": exp_ok, "deserialises": x.is_ok()})),
    }
}

/// a sink that accepts `room` bytes and then fails
struct FailingSink { room: usize }
impl std::io::Write for FailingSink {
    fn write(&mut self, buf: &[u8]) -> std::io::Result<usize> {
        if self.room == 0 { return Err(std::io::Error::new(std::io::ErrorKind::Other, "disk full")); }
        let n = buf.len().min(self.room);
        self.room -= n;
        Ok(n)
    }
    fn flush(&mut self) -> std::io::Result<()> { Ok(()) }
}

/// The same value through the other doors of serde: a serializer that FAILS half-way (an error, and nothing of it may
/// leak into the next serialisation), the value as an element and as a map key, a reader-based deserializer (owned
/// strings instead of borrowed ones), and the serialised form once more afterwards.
fn other_doors(r: &mut Recorder, v: &LanguageIdentifier, want: &str, text: &str) {
    use std::collections::BTreeMap;
    r.stat("serde_other_doors");
    for room in [0usize, 1, want.len() / 2] {
        match guard(|| serde_json::to_writer(FailingSink { room }, v)) {
            Err(at) => r.dis(&["C01", "C19"], &format!("panic@{}", short_at(&at)), json!({"json": text, "api": "to_writer(failing sink)", "panic": at})),
            Ok(Ok(())) => r.dis(&["C19"], "serde-failing-sink-reports-success", json!({"json": text, "room": room})),
            Ok(Err(_)) => {}
        }
        match guard(|| serde_json::to_string(v)) {
            Ok(Ok(out)) if out == want => {}
            other => r.dis(&["C19"], "serde-serialised-form-after-a-failed-serialisation", json!({"expected": want, "observed": format!("{:?}", other), "room": room})),
        }
    }
    match guard(|| serde_json::to_vec(v).map(|x| String::from_utf8_lossy(&x).to_string())) {
        Ok(Ok(out)) if out == want => {}
        other => r.dis(&["C19"], "serde-to-vec", json!({"expected": want, "observed": format!("{:?}", other)})),
    }
    // element of a sequence, key and value of a map
    let mut m: BTreeMap<LanguageIdentifier, LanguageIdentifier> = BTreeMap::new();
    m.insert(v.clone(), v.clone());
    let doc = (vec![v.clone(), v.clone()], m);
    let want_doc = format!("[[{w},{w}],{{{w}:{w}}}]", w = want);
    match guard(|| serde_json::to_string(&doc)) {
        Ok(Ok(out)) if out == want_doc => {
            match guard(|| serde_json::from_str::<(Vec<LanguageIdentifier>, BTreeMap<LanguageIdentifier, LanguageIdentifier>)>(&out)) {
                Ok(Ok(back)) if back == doc => {}
                other => r.dis(&["C19"], "serde-roundtrip-inside-a-document", json!({"json": out, "observed": format!("{:?}", other.map(|x| x.is_ok()))})),
            }
            match guard(|| serde_json::from_reader::<_, (Vec<LanguageIdentifier>, BTreeMap<LanguageIdentifier, LanguageIdentifier>)>(out.as_bytes())) {
                Ok(Ok(back)) if back == doc => {}
                other => r.dis(&["C19"], "serde-roundtrip-through-a-reader", json!({"json": out, "observed": format!("{:?}", other.map(|x| x.is_ok()))})),
            }
        }
        other => r.dis(&["C19"], "serde-serialised-form-inside-a-document", json!({"expected": want_doc, "observed": format!("{:?}", other)})),
    }
}

/// non-string JSON must be an error, never a panic
pub fn check_nonstring(r: &mut Recorder) {
    let texts = ["null", "true", "false", "0", "1", "-1", "1.5", "1e400", "[]", "{}", "[\"en\"]", "{\"en\":\"US\"}",
                 "[[[[[[[[]]]]]]]]", "\"en\" \"US\"", "", "\"en", "en", "\"\\ud800\"", "\"en\\u0000\"", "18446744073709551616"];
    for t in texts.iter() {
        r.stat("serde_nonstring");
        match guard(|| serde_json::from_str::<LanguageIdentifier>(t)) {
            Err(at) => r.dis(&["C01", "C19"], &format!("panic@{}", short_at(&at)), json!({"json": t, "panic": at})),
            Ok(Ok(v)) => r.dis(&["C19"], "serde-accepts-non-string", json!({"json": t, "observed": v.to_string()})),
            Ok(Err(_)) => {}
        }
    }
    let vals = [json!(null), json!(true), json!(1), json!(1.5), json!([]), json!({}), json!(["en"]), json!({"a":"en"})];
    for v in vals.iter() {
        r.stat("serde_nonstring");
        match guard(|| serde_json::from_value::<LanguageIdentifier>(v.clone())) {
            Err(at) => r.dis(&["C01", "C19"], &format!("panic@{}", short_at(&at)), json!({"value": v, "panic": at})),
            Ok(Ok(x)) => r.dis(&["C19"], "serde-accepts-non-string", json!({"value": v, "observed": x.to_string()})),
            Ok(Err(_)) => {}
        }
    }
}
