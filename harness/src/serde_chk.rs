//! C19: the serde form is the canonical string and round-trips.
use crate::proj::*;
use crate::rec::*;
use serde_json::{json, Value};
use unic_langid_impl::LanguageIdentifier;

fn uescape(s: &str) -> String {
    let mut out = String::from("\"");
    for ch in s.chars() {
        let mut buf = [0u16; 2];
        for u in ch.encode_utf16(&mut buf) {
            out.push_str(&format!("\\u{:04x}", u));
        }
    }
    out.push('"');
    out
}

pub fn check_serde(r: &mut Recorder, input: &[u8], exp: &Value) {
    let s = match std::str::from_utf8(input) {
        Ok(s) => s,
        Err(_) => return,
    };
    let exp_ok = exp["ok"].as_bool().unwrap_or(false);
    let plain = serde_json::to_string(s).unwrap();
    let texts = [plain, uescape(s)];
    for (i, text) in texts.iter().enumerate() {
        r.stat("serde_from_str");
        match guard(|| serde_json::from_str::<LanguageIdentifier>(text)) {
            Err(at) => r.dis(&["C01", "C19"], &format!("panic@{}", short_at(&at)), json!({"json": text, "panic": at})),
            Ok(Ok(v)) => {
                if !exp_ok {
                    r.dis(&["C19"], "serde-accepts-ill-formed", json!({"json": text, "observed": v.to_string()}));
                } else if proj_li(&v) != exp["val"] {
                    r.dis(&["C19"], "serde-value", json!({"json": text, "expected": exp["val"], "observed": proj_li(&v)}));
                } else if i == 0 {
                    match guard(|| serde_json::to_string(&v)) {
                        Ok(Ok(out)) => {
                            let want = format!("\"{}\"", String::from_utf8_lossy(&unbytes(&exp["ser"])));
                            if out != want {
                                r.dis(&["C19"], "serde-serialised-form", json!({"json": text, "expected": want, "observed": out}));
                            }
                            match guard(|| serde_json::from_str::<LanguageIdentifier>(&out)) {
                                Ok(Ok(v2)) if v2 == v => {}
                                other => r.dis(&["C19"], "serde-roundtrip", json!({"json": out, "observed": format!("{:?}", other.map(|x| x.map(|y| y.to_string()).map_err(|e| e.to_string())))})),
                            }
                            match guard(|| serde_json::to_value(&v)) {
                                Ok(Ok(Value::String(vs))) if format!("\"{}\"", vs) == want => {}
                                other => r.dis(&["C19"], "serde-to-value", json!({"expected": want, "observed": format!("{:?}", other)})),
                            }
                        }
                        other => r.dis(&["C19"], "serde-serialise-failed", json!({"json": text, "observed": format!("{:?}", other)})),
                    }
                }
            }
            Ok(Err(_)) => {
                if exp_ok {
                    r.dis(&["C19"], "serde-rejects-well-formed", json!({"json": text, "expected": exp["val"]}));
                }
            }
        }
    }
    r.stat("serde_from_value");
    match guard(|| serde_json::from_value::<LanguageIdentifier>(Value::String(s.to_string()))) {
        Err(at) => r.dis(&["C01", "C19"], &format!("panic@{}", short_at(&at)), json!({"value": s, "panic": at})),
        Ok(Ok(v)) => {
            if !exp_ok || proj_li(&v) != exp["val"] {
                r.dis(&["C19"], "serde-from-value", json!({"value": s, "expected": exp, "observed": proj_li(&v)}));
            }
        }
        Ok(Err(_)) => {
            if exp_ok {
                r.dis(&["C19"], "serde-from-value-rejects-well-formed", json!({"value": s}));
            }
        }
    }
}

/// non-string JSON must be an error, never a panic
pub fn check_nonstring(r: &mut Recorder) {
    let texts = ["null", "true", "false", "0", "1", "-1", "1.5", "1e400", "[]", "{}", "[\"en\"]", "{\"en\":\"US\"}",
                 "[[[[[[[[]]]]]]]]", "\"en\" \"US\"", "", "\"en", "en", "\"\\ud800\"", "\"en\\u0000\"", "18446744073709551616"];
    for t in texts.iter() {
        r.stat("serde_nonstring");
        match guard(|| serde_json::from_str::<LanguageIdentifier>(t)) {
            Err(at) => r.dis(&["C01", "C19"], &format!("panic@{}", short_at(&at)), json!({"json": t, "panic": at})),
            Ok(Ok(v)) => r.dis(&["C19"], "serde-accepts-non-string", json!({"json": t, "observed": v.to_string()})),
            Ok(Err(_)) => {}
        }
    }
    let vals = [json!(null), json!(true), json!(1), json!(1.5), json!([]), json!({}), json!(["en"]), json!({"a":"en"})];
    for v in vals.iter() {
        r.stat("serde_nonstring");
        match guard(|| serde_json::from_value::<LanguageIdentifier>(v.clone())) {
            Err(at) => r.dis(&["C01", "C19"], &format!("panic@{}", short_at(&at)), json!({"value": v, "panic": at})),
            Ok(Ok(x)) => r.dis(&["C19"], "serde-accepts-non-string", json!({"value": v, "observed": x.to_string()})),
            Ok(Err(_)) => {}
        }
    }
}
