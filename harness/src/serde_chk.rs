//! C19: the serde form is the canonical string and round-trips.
use crate::proj::*;
use crate::rec::*;
use serde_json::{json, Value};
use unic_langid_impl::LanguageIdentifier;

fn uescape(s: &str) -> String {
    let mut out = String::from("\"");
    for ch in s.chars() {
        let mut buf = [0u16; 2];
        for u in ch.encode_utf16(&mut buf) {
            out.push_str(&format!("\\u{:04x}", u));
        }
    }
    out.push('"');
    out
}

pub fn check_serde(r: &mut Recorder, input: &[u8], exp: &Value) {
    let s = match std::str::from_utf8(input) {
        Ok(s) => s,
        Err(_) => return,
    };
    let exp_ok = exp["ok"].as_bool().unwrap_or(false);
    let plain = serde_json::to_string(s).unwrap();
    let texts = [plain, uescape(s)];
    for (i, text) in texts.iter().enumerate() {
        r.stat("serde_from_str");
        match guard(|| serde_json::from_str::<LanguageIdentifier>(text)) {
            Err(at) => r.dis(&["C01", "C19"], &format!("panic@{}", short_at(&at)), json!({"json": text, "panic": at})),
            Ok(Ok(v)) => {
                if !exp_ok {
                    r.dis(&["C19"], "serde-accepts-ill-formed", json!({"json": text, "observed": v.to_string()}));
                } else if proj_li(&v) != exp["val"] {
                    r.dis(&["C19"], "serde-value", json!({"json": text, "expected": exp["val"], "observed": proj_li(&v)}));
                } else if i == 0 {
                    match guard(|| serde_json::to_string(&v)) {
                        Ok(Ok(out)) => {
                            let want = format!("\"{}\"", String::from_utf8_lossy(&unbytes(&exp["ser"])));
                            if out != want {
                                r.dis(&["C19"], "serde-serialised-form", json!({"json": text, "expected": want, "observed": out}));
                            }
                            match guard(|| serde_json::from_str::<LanguageIdentifier>(&out)) {
                                Ok(Ok(v2)) if v2 == v => {}
                                other => r.dis(&["C19"], "serde-roundtrip", json!({"json": out, "observed": format!("{:?}", other.map(|x| x.map(|y| y.to_string()).map_err(|e| e.to_string())))})),
                            }
                            match guard(|| serde_json::to_value(&v)) {
                                Ok(Ok(Value::String(vs))) if format!("\"{}\"", vs) == want => {}
                                other => r.dis(&["C19"], "serde-to-value", json!({"expected": want, "observed": format!("{:?}", other)})),
                            }
                            other_doors(r, &v, &want, text);
                        }
                        other => r.dis(&["C19"], "serde-serialise-failed", json!({"json": text, "observed": format!("{:?}", other)})),
                    }
                }
            }
            Ok(Err(_)) => {
                if exp_ok {
                    r.dis(&["C19"], "serde-rejects-well-formed", json!({"json": text, "expected": exp["val"]}));
                }
            }
        }
    }
    // a reader-based deserializer hands the visitor owned / scratch strings instead of borrowed ones
    r.stat("serde_from_reader");
    match guard(|| serde_json::from_reader::<_, LanguageIdentifier>(texts[0].as_bytes())) {
        Err(at) => r.dis(&["C01", "C19"], &format!("panic@{}", short_at(&at)), json!({"json": texts[0], "api": "from_reader", "panic": at})),
        Ok(Ok(v)) => {
            if !exp_ok || proj_li(&v) != exp["val"] {
                r.dis(&["C19"], "serde-from-reader", json!({"json": texts[0], "expected": exp, "observed": proj_li(&v)}));
            }
        }
        Ok(Err(_)) => {
            if exp_ok {
                r.dis(&["C19"], "serde-from-reader-rejects-well-formed", json!({"json": texts[0]}));
            }
        }
    }
    r.stat("serde_from_value");
    match guard(|| serde_json::from_value::<LanguageIdentifier>(Value::String(s.to_string()))) {
        Err(at) => r.dis(&["C01", "C19"], &format!("panic@{}", short_at(&at)), json!({"value": s, "panic": at})),
        Ok(Ok(v)) => {
            if !exp_ok || proj_li(&v) != exp["val"] {
                r.dis(&["C19"], "serde-from-value", json!({"value": s, "expected": exp, "observed": proj_li(&v)}));
            }
        }
        Ok(Err(_)) => {
            if exp_ok {
                r.dis(&["C19"], "serde-from-value-rejects-well-formed", json!({"value": s}));
            }
        }
    }
}

/// a sink that accepts `room` bytes and then fails
struct FailingSink { room: usize }
impl std::io::Write for FailingSink {
    fn write(&mut self, buf: &[u8]) -> std::io::Result<usize> {
        if self.room == 0 { return Err(std::io::Error::new(std::io::ErrorKind::Other, "disk full")); }
        let n = buf.len().min(self.room);
        self.room -= n;
        Ok(n)
    }
    fn flush(&mut self) -> std::io::Result<()> { Ok(()) }
}

/// The same value through the other doors of serde: a serializer that FAILS half-way (an error, and nothing of it may
/// leak into the next serialisation), the value as an element and as a map key, a reader-based deserializer (owned
/// strings instead of borrowed ones), and the serialised form once more afterwards.
fn other_doors(r: &mut Recorder, v: &LanguageIdentifier, want: &str, text: &str) {
    use std::collections::BTreeMap;
    r.stat("serde_other_doors");
    for room in [0usize, 1, want.len() / 2] {
        match guard(|| serde_json::to_writer(FailingSink { room }, v)) {
            Err(at) => r.dis(&["C01", "C19"], &format!("panic@{}", short_at(&at)), json!({"json": text, "api": "to_writer(failing sink)", "panic": at})),
            Ok(Ok(())) => r.dis(&["C19"], "serde-failing-sink-reports-success", json!({"json": text, "room": room})),
            Ok(Err(_)) => {}
        }
        match guard(|| serde_json::to_string(v)) {
            Ok(Ok(out)) if out == want => {}
            other => r.dis(&["C19"], "serde-serialised-form-after-a-failed-serialisation", json!({"expected": want, "observed": format!("{:?}", other), "room": room})),
        }
    }
    match guard(|| serde_json::to_vec(v).map(|x| String::from_utf8_lossy(&x).to_string())) {
        Ok(Ok(out)) if out == want => {}
        other => r.dis(&["C19"], "serde-to-vec", json!({"expected": want, "observed": format!("{:?}", other)})),
    }
    // element of a sequence, key and value of a map
    let mut m: BTreeMap<LanguageIdentifier, LanguageIdentifier> = BTreeMap::new();
    m.insert(v.clone(), v.clone());
    let doc = (vec![v.clone(), v.clone()], m);
    let want_doc = format!("[[{w},{w}],{{{w}:{w}}}]", w = want);
    match guard(|| serde_json::to_string(&doc)) {
        Ok(Ok(out)) if out == want_doc => {
            match guard(|| serde_json::from_str::<(Vec<LanguageIdentifier>, BTreeMap<LanguageIdentifier, LanguageIdentifier>)>(&out)) {
                Ok(Ok(back)) if back == doc => {}
                other => r.dis(&["C19"], "serde-roundtrip-inside-a-document", json!({"json": out, "observed": format!("{:?}", other.map(|x| x.is_ok()))})),
            }
            match guard(|| serde_json::from_reader::<_, (Vec<LanguageIdentifier>, BTreeMap<LanguageIdentifier, LanguageIdentifier>)>(out.as_bytes())) {
                Ok(Ok(back)) if back == doc => {}
                other => r.dis(&["C19"], "serde-roundtrip-through-a-reader", json!({"json": out, "observed": format!("{:?}", other.map(|x| x.is_ok()))})),
            }
        }
        other => r.dis(&["C19"], "serde-serialised-form-inside-a-document", json!({"expected": want_doc, "observed": format!("{:?}", other)})),
    }
}

/// non-string JSON must be an error, never a panic
pub fn check_nonstring(r: &mut Recorder) {
    let texts = ["null", "true", "false", "0", "1", "-1", "1.5", "1e400", "[]", "{}", "[\"en\"]", "{\"en\":\"US\"}",
                 "[[[[[[[[]]]]]]]]", "\"en\" \"US\"", "", "\"en", "en", "\"\\ud800\"", "\"en\\u0000\"", "18446744073709551616"];
    for t in texts.iter() {
        r.stat("serde_nonstring");
        match guard(|| serde_json::from_str::<LanguageIdentifier>(t)) {
            Err(at) => r.dis(&["C01", "C19"], &format!("panic@{}", short_at(&at)), json!({"json": t, "panic": at})),
            Ok(Ok(v)) => r.dis(&["C19"], "serde-accepts-non-string", json!({"json": t, "observed": v.to_string()})),
            Ok(Err(_)) => {}
        }
    }
    let vals = [json!(null), json!(true), json!(1), json!(1.5), json!([]), json!({}), json!(["en"]), json!({"a":"en"})];
    for v in vals.iter() {
        r.stat("serde_nonstring");
        match guard(|| serde_json::from_value::<LanguageIdentifier>(v.clone())) {
            Err(at) => r.dis(&["C01", "C19"], &format!("panic@{}", short_at(&at)), json!({"value": v, "panic": at})),
            Ok(Ok(x)) => r.dis(&["C19"], "serde-accepts-non-string", json!({"value": v, "observed": x.to_string()})),
            Ok(Err(_)) => {}
        }
    }
}
