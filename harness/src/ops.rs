//! One public-API operation = one action of LocaleObject.tla.
//! `apply` performs it on a real `Locale` and reports the outcome in the vocabulary of the spec:
//!   {"k":"ok"} | {"k":"ok","b":bool} | {"k":"ok","l":[bytes..]} | {"k":"err"}
//! (a panic is caught by the caller and becomes {"k":"panic","at":..}).

use crate::proj::*;
use serde_json::{json, Value};
use unic_langid_impl::subtags::{Language, Region, Script, Variant};
use unic_langid_impl::LanguageIdentifier;
use unic_locale_impl::Locale;

fn ok() -> Value {
    json!({"k":"ok"})
}
fn okb(x: bool) -> Value {
    json!({"k":"ok","b":x})
}
fn err() -> Value {
    json!({"k":"err"})
}
fn okl<'a>(it: impl Iterator<Item = &'a str>) -> Value {
    json!({"k":"ok","l": it.map(b).collect::<Vec<_>>()})
}

pub const ALL_OPS: &[&str] = &[
    "set_language", "clear_language", "set_script", "clear_script", "set_region", "clear_region",
    "set_variants", "clear_variants", "has_variant",
    "set_keyword", "remove_keyword", "clear_keywords", "keyword",
    "set_attribute", "remove_attribute", "has_attribute", "clear_attributes",
    "set_tlang", "clear_tlang", "set_tfield", "remove_tfield", "clear_tfields", "tfield",
    "add_tag", "remove_tag", "has_tag", "clear_tags",
    "maximize", "minimize", "reparse",
];

pub fn apply(loc: &mut Locale, op: &Value) -> Value {
    let name = op["op"].as_str().unwrap_or("");
    let s = unbytes(&op["s"]);
    let key = unbytes(&op["key"]);
    let vals = unbytes_list(&op["vals"]);
    match name {
        "set_language" => match Language::from_bytes(&s) {
            Ok(l) => {
                loc.id.language = l;
                ok()
            }
            Err(_) => err(),
        },
        "clear_language" => {
            loc.id.language.clear();
            ok()
        }
        "set_script" => match Script::from_bytes(&s) {
            Ok(x) => {
                loc.id.script = Some(x);
                ok()
            }
            Err(_) => err(),
        },
        "clear_script" => {
            loc.id.script = None;
            ok()
        }
        "set_region" => match Region::from_bytes(&s) {
            Ok(x) => {
                loc.id.region = Some(x);
                ok()
            }
            Err(_) => err(),
        },
        "clear_region" => {
            loc.id.region = None;
            ok()
        }
        "set_variants" => {
            let parsed: Result<Vec<Variant>, _> = vals.iter().map(|v| Variant::from_bytes(v)).collect();
            match parsed {
                Ok(vs) => {
                    loc.id.set_variants(&vs);
                    ok()
                }
                Err(_) => err(),
            }
        }
        "clear_variants" => {
            loc.id.clear_variants();
            ok()
        }
        "has_variant" => match Variant::from_bytes(&s) {
            Ok(v) => okb(loc.id.has_variant(v)),
            Err(_) => err(),
        },
        "set_keyword" => match loc.extensions.unicode.set_keyword(key, &vals) {
            Ok(()) => ok(),
            Err(_) => err(),
        },
        "remove_keyword" => match loc.extensions.unicode.remove_keyword(key) {
            Ok(x) => okb(x),
            Err(_) => err(),
        },
        "clear_keywords" => {
            loc.extensions.unicode.clear_keywords();
            ok()
        }
        "keyword" => {
            let r = match loc.extensions.unicode.keyword(key) {
                Ok(it) => okl(it),
                Err(_) => err(),
            };
            r
        }
        "set_attribute" => match loc.extensions.unicode.set_attribute(s) {
            Ok(()) => ok(),
            Err(_) => err(),
        },
        "remove_attribute" => match loc.extensions.unicode.remove_attribute(s) {
            Ok(x) => okb(x),
            Err(_) => err(),
        },
        "has_attribute" => match loc.extensions.unicode.has_attribute(s) {
            Ok(x) => okb(x),
            Err(_) => err(),
        },
        "clear_attributes" => {
            loc.extensions.unicode.clear_attributes();
            ok()
        }
        "set_tlang" => match LanguageIdentifier::from_bytes(&s) {
            Ok(li) => match loc.extensions.transform.set_tlang(li) {
                Ok(()) => ok(),
                Err(_) => err(),
            },
            Err(_) => err(),
        },
        "clear_tlang" => {
            loc.extensions.transform.clear_tlang();
            ok()
        }
        "set_tfield" => match loc.extensions.transform.set_tfield(key, &vals) {
            Ok(()) => ok(),
            Err(_) => err(),
        },
        "remove_tfield" => match loc.extensions.transform.remove_tfield(key) {
            Ok(x) => okb(x),
            Err(_) => err(),
        },
        "clear_tfields" => {
            loc.extensions.transform.clear_tfields();
            ok()
        }
        "tfield" => {
            let r = match loc.extensions.transform.tfield(key) {
                Ok(it) => okl(it),
                Err(_) => err(),
            };
            r
        }
        "add_tag" => match loc.extensions.private.add_tag(s) {
            Ok(()) => ok(),
            Err(_) => err(),
        },
        "remove_tag" => match loc.extensions.private.remove_tag(s) {
            Ok(x) => okb(x),
            Err(_) => err(),
        },
        "has_tag" => match loc.extensions.private.has_tag(s) {
            Ok(x) => okb(x),
            Err(_) => err(),
        },
        "clear_tags" => {
            loc.extensions.private.clear_tags();
            ok()
        }
        #[cfg(feature = "likelysubtags")]
        "maximize" => okb(loc.id.maximize()),
        #[cfg(feature = "likelysubtags")]
        "minimize" => okb(loc.id.minimize()),
        "reparse" => {
            let text = loc.to_string();
            match Locale::from_bytes(text.as_bytes()) {
                Ok(l2) => {
                    let same = l2 == *loc && l2.to_string() == text;
                    *loc = l2;
                    okb(same)
                }
                Err(_) => err(),
            }
        }
        _ => json!({"k":"unknown-op"}),
    }
}
