//! ulverif — the implementation side of the conformance binding.
//!   ulverif replay [--out FILE] [--hang FILE] [--careful FILE]   cases on stdin -> disagreements
//!   ulverif drive <driver> --seed N --n N --out FILE             real executions -> ndjson trace
//!   ulverif features                                             which cargo features are on
mod dir;
mod drivers;
#[cfg(feature = "likelysubtags")]
mod likely;
mod ops;
mod proj;
mod rec;
mod replay;
#[cfg(feature = "serde")]
mod serde_chk;
mod sweep;
#[cfg(unic_locale_verif)]
mod tables;

use std::io::{BufRead, Write};

fn arg_after(args: &[String], name: &str) -> Option<String> {
    args.iter().position(|a| a == name).and_then(|i| args.get(i + 1).cloned())
}

/// TLC prints a string value as "....", with \" and \\ escapes.  Cases are printed as
/// "CASE {json}"; anything else on stdin is TLC chatter and is passed through to stderr-free void.
fn extract_case(line: &str) -> Option<String> {
    let l = line.trim_end();
    if l.starts_with('{') {
        return Some(l.to_string());
    }
    let body = l.strip_prefix("\"CASE ")?.strip_suffix('"')?;
    let mut out = String::with_capacity(body.len());
    let mut it = body.chars();
    while let Some(c) = it.next() {
        if c == '\\' {
            match it.next() {
                Some('"') => out.push('"'),
                Some('\\') => out.push('\\'),
                Some('n') => out.push('\n'),
                Some('t') => out.push('\t'),
                Some(o) => {
                    out.push('\\');
                    out.push(o)
                }
                None => out.push('\\'),
            }
        } else {
            out.push(c);
        }
    }
    Some(out)
}

fn main() {
    let args: Vec<String> = std::env::args().collect();
    rec::install_panic_hook();
    match args.get(1).map(|s| s.as_str()) {
        Some("features") => {
            println!(
                "{}",
                serde_json::json!({
                    "likelysubtags": cfg!(feature = "likelysubtags"),
                    "serde": cfg!(feature = "serde"),
                    "macros": cfg!(feature = "macros"),
                    "hooks": cfg!(unic_locale_verif),
                })
            );
        }
        Some("replay") => {
            let out = arg_after(&args, "--out");
            let hang = arg_after(&args, "--hang");
            let careful = arg_after(&args, "--careful");
            let passthru = arg_after(&args, "--tlc-log");
            let mut r = rec::Recorder::new(out.as_deref());
            let wd = rec::Watchdog::start(10, hang);
            let mut log = passthru.map(|p| std::fs::File::create(p).expect("tlc log"));
            let mut careful_f = careful.map(|p| std::fs::File::create(p).expect("careful file"));
            let stdin = std::io::stdin();
            let mut n: u64 = 0;
            let mut samples: Vec<String> = Vec::new();
            #[cfg(feature = "serde")]
            serde_chk::check_nonstring(&mut r);
            for line in stdin.lock().lines() {
                let line = match line {
                    Ok(l) => l,
                    Err(_) => continue,
                };
                match extract_case(&line) {
                    Some(js) => {
                        n += 1;
                        if let Some(f) = careful_f.as_mut() {
                            use std::io::Seek;
                            let _ = f.seek(std::io::SeekFrom::Start(0));
                            let _ = f.set_len(0);
                            let _ = f.write_all(js.as_bytes());
                            let _ = f.flush();
                        }
                        wd.begin(&js);
                        match serde_json::from_str::<serde_json::Value>(&js) {
                            Ok(c) => {
                                if samples.len() < 3 || (n % 100_003 == 0 && samples.len() < 8) {
                                    samples.push(js.chars().take(600).collect());
                                }
                                r.cur_case = Some(js);
                                replay::dispatch(&mut r, &c);
                            }
                            Err(e) => {
                                r.stat("unparsable_case");
                                eprintln!("unparsable case line {}: {} :: {}", n, e, &js.chars().take(200).collect::<String>());
                            }
                        }
                        wd.end();
                    }
                    None => {
                        if let Some(f) = log.as_mut() {
                            let _ = writeln!(f, "{}", line);
                        }
                    }
                }
            }
            if let Some(sw) = r.sweep.take() {
                let stride: usize = std::env::var("VERIF_SWEEP_STRIDE").ok().and_then(|s| s.parse().ok()).unwrap_or(1).max(1);
                let offset: usize = std::env::var("VERIF_SEED").ok().and_then(|s| s.parse().ok()).unwrap_or(0);
                r.cur_case = None;
                sw.run(&mut r, wd.progress.clone(), stride, offset);
            }
            r.cur_case = None;
            replay::check_order_pool(&mut r);
            let mut s = r.summary();
            s["cases"] = serde_json::json!(n);
            s["samples"] = serde_json::json!(samples);
            println!("{}", s);
        }
        Some("drive") => drivers::main(&args[2..]),
        #[cfg(unic_locale_verif)]
        Some("tables") => tables::dump(),
        _ => {
            eprintln!("usage: ulverif replay|drive|features|tables");
            std::process::exit(2);
        }
    }
}
