//! spec -> impl: replay the cases TLC generated through the real public API and compare with the
//! specification's answer.  Every disagreement is attributed to the properties it violates.

use crate::ops;
use crate::proj::*;
use crate::rec::*;
use serde_json::{json, Value};
use std::str::FromStr;
use unic_langid_impl::subtags::{Language, Region, Script, Variant};
use unic_langid_impl::{LanguageIdentifier, LanguageIdentifierError};
use unic_locale_impl::{ExtensionsMap, Locale};

pub fn join(toks: &[Vec<u8>]) -> Vec<u8> {
    let mut v = Vec::new();
    for (i, t) in toks.iter().enumerate() {
        if i > 0 {
            v.push(b'-');
        }
        v.extend_from_slice(t);
    }
    v
}

fn li_err_kind(e: &LanguageIdentifierError) -> &'static str {
    use unic_langid_impl::parser::ParserError as P;
    match e {
        LanguageIdentifierError::ParserError(P::InvalidLanguage) => "InvalidLanguage",
        LanguageIdentifierError::ParserError(P::InvalidSubtag) => "InvalidSubtag",
        LanguageIdentifierError::Unknown => "Unknown",
    }
}

fn det(input: &[u8], expected: Value, observed: Value) -> Value {
    json!({"input": show(input), "input_bytes": bytes(input), "expected": expected, "observed": observed})
}

/// language-identifier half of a parse case
pub fn check_li(r: &mut Recorder, input: &[u8], exp: &Value) {
    let exp_ok = exp["ok"].as_bool().unwrap_or(false);
    let got = guard(|| LanguageIdentifier::from_bytes(input));
    r.stat("li_from_bytes");
    let got = match got {
        Err(at) => {
            // a panic on a well-formed input is also a failure to accept it (C02), not only of totality
            r.dis(if exp_ok { &["C01", "C02"] } else { &["C01"] }, &format!("panic@{}", short_at(&at)),
                  det(input, exp.clone(), json!({"api":"LanguageIdentifier::from_bytes","panic":at})));
            return;
        }
        Ok(g) => g,
    };
    match (&got, exp_ok) {
        (Ok(v), true) => {
            let p = proj_li(v);
            if p != exp["val"] {
                r.dis(&["C02"], "li-value", det(input, exp["val"].clone(), p.clone()));
            }
            let ser = v.to_string();
            if b(&ser) != exp["ser"] {
                r.dis(&["C04", "C02"], "li-ser", det(input, exp["ser"].clone(), json!(ser)));
            }
            if ser.len() > input.len() {
                r.dis(&["C04"], "li-canonical-longer-than-input", det(input, json!(null), json!(ser)));
            }
            // canonicalize == to_string of the parsed value
            match guard(|| unic_langid_impl::canonicalize(input)) {
                Ok(Ok(c)) => {
                    if c != ser {
                        r.dis(&["C04"], "li-canonicalize-differs", det(input, json!(ser), json!(c)));
                    }
                    // idempotent
                    match guard(|| unic_langid_impl::canonicalize(&c)) {
                        Ok(Ok(c2)) if c2 == c => {}
                        other => r.dis(&["C05"], "li-canonicalize-not-idempotent",
                                       det(input, json!(c), json!(format!("{:?}", other)))),
                    }
                }
                Ok(Err(e)) => r.dis(&["C02", "C04"], "li-canonicalize-err", det(input, json!(ser), json!(format!("{:?}", e)))),
                // (this input is well formed: canonicalize must succeed, C02 -- a panic is not success)
                Err(at) => r.dis(&["C01", "C02"], &format!("panic@{}", short_at(&at)), det(input, json!(null), json!({"api":"canonicalize","panic":at}))),
            }
            // round trip (C05) and comparison with &str (C12); rejected calls first (see poison())
            poison(r);
            match guard(|| LanguageIdentifier::from_bytes(ser.as_bytes())) {
                Ok(Ok(v2)) => {
                    if &v2 != v {
                        r.dis(&["C05"], "li-roundtrip-differs", det(input, p.clone(), proj_li(&v2)));
                    }
                }
                Ok(Err(e)) => r.dis(&["C05"], "li-roundtrip-err", det(input, json!(ser), json!(format!("{:?}", e)))),
                Err(at) => r.dis(&["C01"], &format!("panic@{}", short_at(&at)), det(ser.as_bytes(), json!(null), json!({"panic":at}))),
            }
            if !(*v == ser.as_str()) {
                r.dis(&["C12"], "li-ne-own-text", det(input, json!(ser), json!(false)));
            }
            // 'und' is the empty language, and the only one (C15); one representation (C12)
            if v.language.is_empty() != (v.language.as_str() == "und") || (v.language.is_empty() && v.language != Language::default()) {
                r.dis(&["C15", "C12", "C02"], "und-has-two-representations", det(input, json!("und <=> is_empty <=> == default()"), json!({"as_str": v.language.as_str(), "is_empty": v.language.is_empty()})));
            }
            li_vs_locale(r, input, v);
            r.stat("li_accepted");
        }
        (Err(e), false) => {
            let k = li_err_kind(e);
            if json!(k) != exp["err"] {
                r.dis(&["C02"], "li-error-kind", det(input, exp["err"].clone(), json!(k)));
            }
            match guard(|| unic_langid_impl::canonicalize(input)) {
                Ok(Err(_)) => {}
                Ok(Ok(c)) => r.dis(&["C02", "C04"], "li-canonicalize-accepts-ill-formed", det(input, json!("err"), json!(c))),
                Err(at) => r.dis(&["C01"], &format!("panic@{}", short_at(&at)), det(input, json!(null), json!({"api":"canonicalize","panic":at}))),
            }
            r.stat("li_rejected");
        }
        (Ok(v), false) => {
            r.dis(&["C02"], "li-accepts-ill-formed", det(input, json!({"err": exp["err"]}), json!({"ok": proj_li(v), "ser": v.to_string()})));
            // C13 speaks of every input the LIBRARY's LanguageIdentifier accepts, whatever the grammar says about it
            li_vs_locale(r, input, v);
        }
        (Err(e), true) => {
            r.dis(&["C02"], "li-rejects-well-formed", det(input, exp["val"].clone(), json!(li_err_kind(e))));
        }
    }
    // FromStr is the same function on UTF-8 input
    if let Ok(s) = std::str::from_utf8(input) {
        match guard(|| LanguageIdentifier::from_str(s)) {
            Ok(g2) => {
                let same = match (&got, &g2) {
                    (Ok(a), Ok(b2)) => a == b2,
                    (Err(a), Err(b2)) => a == b2,
                    _ => false,
                };
                if !same {
                    r.dis(&["C02"], "li-fromstr-differs", det(input, json!(format!("{:?}", got.as_ref().map(proj_li))), json!(format!("{:?}", g2.as_ref().map(proj_li)))));
                }
            }
            Err(at) => r.dis(if exp_ok { &["C01", "C02"] } else { &["C01"] }, &format!("panic@{}", short_at(&at)), det(input, json!(null), json!({"api":"FromStr","panic":at}))),
        }
    }
}

/// REJECTED calls that push as much as they can before they fail (the same texts are checked to be ill-formed on the
/// specification: MC_Long.tla, PoisonLI / PoisonLoc / PoisonExt).  Run straight before a round trip that is about to be
/// judged: whatever a failed call leaves behind in the library (a scratch buffer drained on success only, a half-updated
/// memo) lands in the very next successful call -- which then is the one under judgement.
pub fn poison_calls() -> Vec<String> {
    // ONE rejected call per round trip, in rotation: a later call of the battery could clean up what an earlier one left
    // behind (a successful identifier parse inside a failing locale parse drains the identifier reader's scratch space)
    use std::sync::atomic::{AtomicUsize, Ordering};
    static TURN: AtomicUsize = AtomicUsize::new(0);
    const LI: &[&[u8]] = &[b"zz-Zzzz-ZZ-poisonv1-poisonv2-u", b"zz-poisonv1-1xyz-!!", b"zz-poisonv3-u-ca-gregory"];
    const LOC: &[&[u8]] = &[b"zz-u-poisona1-poisona2-h0", b"zz-u-ca-poisont1-!!", b"zz-t-zz-poisonv4-h0-poisontv-!!",
                            b"zz-t-h0-poisontv-!!", b"zz-x-poisonp1-toolongpoison", b"zz-poisonv5-poisonv6-u-!!"];
    const EXT: &[&[u8]] = &[b"u-poisona3-h0", b"t-h0-poisontv-!!", b"x-poisonp2-toolongpoison"];
    let mut accepted: Vec<String> = Vec::new();
    let k = TURN.fetch_add(1, Ordering::Relaxed) % (LI.len() + LOC.len() + EXT.len() + 7);
    if k < LI.len() {
        if LanguageIdentifier::from_bytes(LI[k]).is_ok() { accepted.push(show(LI[k])); }
    } else if k < LI.len() + LOC.len() {
        let p = LOC[k - LI.len()];
        if Locale::from_bytes(p).is_ok() { accepted.push(show(p)); }
    } else if k < LI.len() + LOC.len() + EXT.len() {
        let p = EXT[k - LI.len() - LOC.len()];
        if ExtensionsMap::from_bytes(p).is_ok() { accepted.push(show(p)); }
    } else {
        // a failing mutator call on a scratch value: valid members first, the malformed one last
        let mut scratch = Locale::default();
        match k - LI.len() - LOC.len() - EXT.len() {
            0 => { let _ = scratch.extensions.unicode.set_keyword("ca", &["poisonk1", "poisonk2", "!"]); }
            1 => { let _ = scratch.extensions.transform.set_tfield("h0", &["poisonf1", "poisonf2", "!"]); }
            2 => { let _ = scratch.extensions.unicode.set_attribute("poison!"); }
            3 => { let _ = scratch.extensions.private.add_tag("toolongpoison"); }
            4 => { let _ = scratch.extensions.unicode.set_keyword("!", &["poisonk3"]); }
            5 => { let _ = scratch.extensions.transform.set_tfield("!", &["poisonf3"]); }
            _ => { let _ = Language::from_bytes(b"poison!"); let _ = Variant::from_bytes(b"poisonvr!"); }
        }
        if !scratch.extensions.is_empty() { accepted.push(format!("mutators: {}", scratch)); }
    }
    accepted
}

pub fn poison(r: &mut Recorder) {
    r.stat("poisoned_round_trips");
    match guard(poison_calls) {
        Ok(a) if a.is_empty() => {}
        Ok(a) => r.dis(&["C03", "C10"], "ill-formed-poison-accepted", json!({"accepted": a})),
        Err(at) => r.dis(&["C01"], &format!("panic@{}", short_at(&at)), json!({"api": "rejected calls (poison battery)", "panic": at})),
    }
}

/// C13: whatever LanguageIdentifier accepts, Locale accepts with an identical id, no extensions and the same text
fn li_vs_locale(r: &mut Recorder, input: &[u8], v: &LanguageIdentifier) {
    let p = proj_li(v);
    let ser = v.to_string();
    // C13: Locale accepts it with an identical id, no extensions, same text
    match guard(|| Locale::from_bytes(input)) {
        Ok(Ok(l)) => {
            if &l.id != v || !l.extensions.is_empty() || l.to_string() != ser
                || proj_loc(&l) != proj_loc(&Locale::from(v.clone())) {
                r.dis(&["C13"], "locale-differs-from-langid", det(input, p.clone(), proj_loc(&l)));
            }
            let back: LanguageIdentifier = Locale::from(v.clone()).into();
            if &back != v {
                r.dis(&["C13"], "li-locale-li-not-identity", det(input, p.clone(), proj_li(&back)));
            }
            let asref: &LanguageIdentifier = l.as_ref();
            if asref != v {
                r.dis(&["C13"], "asref-differs", det(input, p.clone(), proj_li(asref)));
            }
        }
        Ok(Err(e)) => r.dis(&["C13"], "locale-rejects-langid", det(input, p.clone(), json!(format!("{:?}", e)))),
        Err(at) => r.dis(&["C01"], &format!("panic@{}", short_at(&at)), det(input, json!(null), json!({"api":"Locale::from_bytes","panic":at}))),
    }
}

/// value-level obligations on any Locale the library hands out (C04/C05/C17), independent of zone
pub fn check_loc_value(r: &mut Recorder, input: &[u8], l: &Locale, tag: &str) {
    r.pool_add(l);
    let ser = l.to_string();
    poison(r);
    match guard(|| Locale::from_bytes(ser.as_bytes())) {
        Ok(Ok(l2)) => {
            if &l2 != l || l2.to_string() != ser {
                r.dis(&["C05"], &format!("{}-roundtrip-differs", tag), det(input, json!({"ser": ser, "val": proj_loc(l)}), json!({"ser": l2.to_string(), "val": proj_loc(&l2)})));
            }
        }
        Ok(Err(e)) => r.dis(&["C05"], &format!("{}-roundtrip-err", tag), det(input, json!({"ser": ser}), json!(format!("{:?}", e)))),
        Err(at) => r.dis(&["C01"], &format!("panic@{}", short_at(&at)), det(ser.as_bytes(), json!(null), json!({"api":"Locale::from_bytes","panic":at}))),
    }
    // ExtensionsMap text (with its leading '-') re-parses to the same map (C05, C17)
    let es = l.extensions.to_string();
    poison(r);
    match guard(|| ExtensionsMap::from_bytes(es.as_bytes())) {
        Ok(Ok(e2)) => {
            if e2 != l.extensions {
                r.dis(&["C05", "C17"], &format!("{}-extmap-roundtrip-differs", tag), det(input, json!(es), json!(e2.to_string())));
            }
        }
        Ok(Err(e)) => r.dis(&["C05", "C17"], &format!("{}-extmap-roundtrip-err", tag), det(input, json!(es), json!(format!("{:?}", e)))),
        Err(at) => r.dis(&["C01"], &format!("panic@{}", short_at(&at)), det(es.as_bytes(), json!(null), json!({"api":"ExtensionsMap::from_bytes","panic":at}))),
    }
    // into_parts / from_parts (C17)
    let r17 = guard(|| {
        let (lang, script, region, variants, ext) = l.clone().into_parts();
        let em = ExtensionsMap::from_str(&ext);
        em.map(|em| Locale::from_parts(lang, script, region, &variants, Some(em)))
    });
    match r17 {
        Ok(Ok(l3)) => {
            if &l3 != l {
                r.dis(&["C17"], &format!("{}-parts-roundtrip-differs", tag), det(input, proj_loc(l), proj_loc(&l3)));
            }
        }
        Ok(Err(e)) => r.dis(&["C17"], &format!("{}-parts-ext-reparse-err", tag), det(input, json!(es), json!(format!("{:?}", e)))),
        Err(at) => r.dis(&["C01"], &format!("panic@{}", short_at(&at)), det(input, json!(null), json!({"api":"into_parts/from_parts","panic":at}))),
    }
}

/// locale half of a parse case
pub fn check_loc(r: &mut Recorder, input: &[u8], exp: &Value) {
    let zone = exp["zone"].as_str().unwrap_or("?");
    let got = guard(|| Locale::from_bytes(input));
    r.stat("loc_from_bytes");
    r.stat(&format!("zone_{}", zone));
    let got = match got {
        Err(at) => {
            r.dis(if zone == "accept" { &["C01", "C03"] } else { &["C01"] }, &format!("panic@{}", short_at(&at)),
                  det(input, json!({"zone": zone}), json!({"api":"Locale::from_bytes","panic":at})));
            return;
        }
        Ok(g) => g,
    };
    match &got {
        Ok(l) => {
            let p = proj_loc(l);
            let ser = l.to_string();
            match zone {
                "accept" | "either" | "other" => {
                    if p != exp["val"] {
                        r.dis(&["C03"], &format!("loc-value-{}", zone), det(input, exp["val"].clone(), p.clone()));
                    }
                    // (a library that SUPPORTS other extensions prints them too: text not compared there)
                    if zone != "other" && b(&ser) != exp["ser"] {
                        r.dis(&["C04", "C03"], &format!("loc-ser-{}", zone), det(input, exp["ser"].clone(), json!(ser)));
                    }
                }
                "reject" => {
                    // C03; and C04 too when what is printed is not even made of letters, digits and '-' or is longer than the input
                    let lexical_ok = ser.bytes().all(|c| c.is_ascii_alphanumeric() || c == b'-') && ser.len() <= input.len();
                    let props: &[&str] = if lexical_ok { &["C03"] } else { &["C03", "C04"] };
                    r.dis(props, "loc-accepts-ill-formed", det(input, json!({"zone":"reject","why": exp["why"]}), json!({"ser": ser, "val": p})));
                }
                _ => {}
            }
            if ser.len() > input.len() {
                r.dis(&["C04"], "loc-canonical-longer-than-input", det(input, json!(null), json!(ser)));
            }
            match guard(|| unic_locale_impl::canonicalize(input)) {
                Ok(Ok(c)) => {
                    if c != ser {
                        r.dis(&["C04"], "loc-canonicalize-differs", det(input, json!(ser), json!(c)));
                    }
                    match guard(|| unic_locale_impl::canonicalize(&c)) {
                        Ok(Ok(c2)) if c2 == c => {}
                        other => r.dis(&["C05"], "loc-canonicalize-not-idempotent", det(input, json!(c), json!(format!("{:?}", other)))),
                    }
                }
                Ok(Err(e)) => r.dis(&["C04"], "loc-canonicalize-err", det(input, json!(ser), json!(format!("{:?}", e)))),
                Err(at) => r.dis(&["C01"], &format!("panic@{}", short_at(&at)), det(input, json!(null), json!({"api":"canonicalize","panic":at}))),
            }
            check_loc_value(r, input, l, "parsed");
            // C13: the id is what LanguageIdentifier reads from the part before the first
            // singleton, and Locale -> LanguageIdentifier drops exactly the extensions
            if zone == "accept" {
                let mut end = input.len();
                let mut start = 0usize;
                let mut first = true;
                for (idx, tok) in input.split(|c| *c == b'-' || *c == b'_').enumerate() {
                    let _ = idx;
                    if !first && tok.len() == 1 {
                        end = start.saturating_sub(1);
                        break;
                    }
                    first = false;
                    start += tok.len() + 1;
                }
                match guard(|| LanguageIdentifier::from_bytes(&input[..end])) {
                    Ok(Ok(li)) => {
                        let conv: LanguageIdentifier = l.clone().into();
                        if li != l.id || conv != l.id || proj_li(&conv) != exp["val"]["id"] {
                            r.dis(&["C13"], "locale-id-differs-from-langid-of-prefix", det(input, exp["val"]["id"].clone(), json!({"prefix": show(&input[..end]), "langid": proj_li(&li), "locale_id": proj_li(&l.id)})));
                        }
                    }
                    other => r.dis(&["C13"], "langid-rejects-locale-prefix", det(input, exp["val"]["id"].clone(), json!({"prefix": show(&input[..end]), "observed": format!("{:?}", other.map(|x| x.map(|y| y.to_string())))}))),
                }
                r.stat("c13_prefix");
            }
            r.stat("loc_accepted");
        }
        Err(_) => {
            if zone == "accept" {
                // (C13 too: a well-formed locale that is rejected has no id to equal the language identifier of its prefix)
                r.dis(&["C03", "C13"], "loc-rejects-well-formed", det(input, exp["val"].clone(), json!(format!("{:?}", got.as_ref().err()))));
            }
            match guard(|| unic_locale_impl::canonicalize(input)) {
                Ok(Err(_)) => {}
                Ok(Ok(c)) => r.dis(&["C04"], "loc-canonicalize-accepts-what-parse-rejects", det(input, json!("err"), json!(c))),
                Err(at) => r.dis(&["C01"], &format!("panic@{}", short_at(&at)), det(input, json!(null), json!({"api":"canonicalize","panic":at}))),
            }
            r.stat("loc_rejected");
        }
    }
    if let Ok(s) = std::str::from_utf8(input) {
        match guard(|| Locale::from_str(s)) {
            Ok(g2) => {
                let same = match (&got, &g2) {
                    (Ok(a), Ok(b2)) => a == b2,
                    (Err(_), Err(_)) => true,
                    _ => false,
                };
                if !same {
                    r.dis(&["C03"], "loc-fromstr-differs", det(input, json!(got.is_ok()), json!(g2.is_ok())));
                }
            }
            Err(at) => r.dis(&["C01"], &format!("panic@{}", short_at(&at)), det(input, json!(null), json!({"api":"Locale::from_str","panic":at}))),
        }
    }
}

/// the step model of the parser as implemented (ImplParser.tla) predicts the EXACT outcome, also
/// where the properties leave a choice.  A difference here is behaviour drift, not a violation:
/// it is attributed to no property and only counted.
pub fn check_impl(r: &mut Recorder, input: &[u8], exp: &Value) {
    r.stat("impl_model_cases");
    let got = guard(|| Locale::from_bytes(input));
    let same = match &got {
        Ok(Ok(l)) => exp["ok"] == json!(true) && proj_loc(l) == exp["val"] && b(&l.to_string()) == exp["ser"],
        Ok(Err(_)) => exp["ok"] == json!(false),
        Err(_) => false,
    };
    if same {
        r.stat("impl_model_agree");
    } else {
        r.dis(&["IMPL-MODEL"], "behaviour-differs-from-step-model", det(input, exp.clone(),
              json!(format!("{:?}", got.map(|x| x.map(|l| l.to_string()).map_err(|e| format!("{:?}", e)))))));
    }
}

/// extension-map case: the tokens are the text handed to ExtensionsMap::from_bytes
pub fn check_ext(r: &mut Recorder, input: &[u8], exp: &Value) {
    let zone = exp["zone"].as_str().unwrap_or("?");
    r.stat("ext_from_bytes");
    match guard(|| ExtensionsMap::from_bytes(input)) {
        Err(at) => r.dis(&["C01"], &format!("panic@{}", short_at(&at)), det(input, json!({"zone": zone}), json!({"api":"ExtensionsMap::from_bytes","panic":at}))),
        Ok(Ok(e)) => {
            let p = proj_ext(exp["val"]["id"].clone(), &e);
            match zone {
                "accept" | "either" | "other" => {
                    if p != exp["val"] {
                        r.dis(&["C03"], &format!("ext-value-{}", zone), det(input, exp["val"].clone(), p));
                    }
                    if zone != "other" && b(&e.to_string()) != exp["ser"] {
                        r.dis(&["C04"], &format!("ext-ser-{}", zone), det(input, exp["ser"].clone(), json!(e.to_string())));
                    }
                }
                "reject" => r.dis(&["C03"], "ext-accepts-ill-formed", det(input, json!({"zone":"reject","why": exp["why"]}), json!({"ser": e.to_string()}))),
                _ => {}
            }
            match guard(|| ExtensionsMap::from_bytes(e.to_string().as_bytes())) {
                Ok(Ok(e2)) if e2 == e => {}
                other => r.dis(&["C05"], "ext-roundtrip", det(input, json!(e.to_string()), json!(format!("{:?}", other.map(|x| x.map(|y| y.to_string())))))),
            }
        }
        Ok(Err(_)) => {
            if zone == "accept" {
                r.dis(&["C03"], "ext-rejects-well-formed", det(input, exp["val"].clone(), json!("err")));
            }
        }
    }
}

/// subtag case: one byte string against the four productions
pub fn check_sub(r: &mut Recorder, c: &Value) {
    let s = unbytes(&c["s"]);
    let is = c["is"].as_array().cloned().unwrap_or_default();
    let canon = c["canon"].as_array().cloned().unwrap_or_default();
    macro_rules! one {
        ($idx:expr, $name:expr, $ty:ty) => {{
            r.stat(concat!("sub_", $name));
            let exp_ok = is[$idx].as_bool().unwrap_or(false);
            match guard(|| <$ty>::from_bytes(&s)) {
                Err(at) => r.dis(if exp_ok { &["C01", "C15"] } else { &["C01"] }, &format!("panic@{}", short_at(&at)), det(&s, json!(null), json!({"api": concat!($name, "::from_bytes"), "panic": at}))),
                Ok(Ok(v)) => {
                    if !exp_ok {
                        r.dis(&["C15"], concat!($name, "-accepts-ill-formed"), det(&s, json!("err"), json!(v.as_str())));
                    } else {
                        let txt = v.as_str().to_string();
                        if b(&txt) != canon[$idx] || v.to_string() != txt || !(v == txt.as_str()) {
                            r.dis(&["C15"], concat!($name, "-canonical-text"), det(&s, canon[$idx].clone(), json!({"as_str": txt, "display": v.to_string()})));
                        }
                        // == &str is true ONLY for the canonical text (C12, C15): other spellings and neighbours are unequal
                        let mut others: Vec<String> = vec![txt.to_ascii_uppercase(), txt.to_ascii_lowercase(), format!("{}a", txt), txt[..txt.len() - 1].to_string(),
                                                           format!(" {}", txt), String::new(), format!("{}\0", txt), format!("{}\0\0\0\0\0\0", txt), format!("\0{}", txt),
                                                           format!("{} ", txt), format!("{}-", txt)];
                        if let Ok(raw) = std::str::from_utf8(&s) { others.push(raw.to_string()); }
                        for o in others {
                            if o != txt && (v == o.as_str()) {
                                r.dis(&["C12", "C15"], concat!($name, "-equals-foreign-text"), det(&s, json!(txt), json!(o)));
                            }
                        }
                        // neighbours of the text just accepted (MC_Subtags.NeighbourRejected): an extra space, NUL or separator
                        // at either end is never a subtag -- asked straight after the accepted one, in case the library remembers it
                        for x in [b' ', 0u8, b'-', b'_'] {
                            let mut n1 = s.clone(); n1.push(x);
                            let mut n2 = vec![x]; n2.extend_from_slice(&s);
                            let mut n3 = s.clone(); n3.extend_from_slice(&[x, x, x]);
                            for nb in [n1, n2, n3] {
                                if let Ok(Ok(w)) = guard(|| <$ty>::from_bytes(&nb)) {
                                    r.dis(&["C15"], concat!($name, "-accepts-a-neighbour-of-the-subtag-just-accepted"), det(&nb, json!("err"), json!(w.as_str())));
                                }
                            }
                        }
                        // re-parse of the canonical text (C05) and FromStr
                        match guard(|| <$ty>::from_str(&txt)) {
                            Ok(Ok(v2)) if v2 == v => {}
                            other => r.dis(&["C05", "C15"], concat!($name, "-roundtrip"), det(&s, json!(txt), json!(format!("{:?}", other.map(|x| x.map(|y| y.to_string())))))),
                        }
                    }
                }
                Ok(Err(_)) => {
                    if exp_ok {
                        r.dis(&["C15"], concat!($name, "-rejects-well-formed"), det(&s, canon[$idx].clone(), json!("err")));
                    }
                }
            }
            if let Ok(st) = std::str::from_utf8(&s) {
                match guard(|| (<$ty>::from_str(st).is_ok(), <$ty>::from_bytes(&s).is_ok())) {
                    Ok((a, b2)) if a == b2 => {}
                    Ok(_) => r.dis(&["C15"], concat!($name, "-fromstr-differs"), det(&s, json!(null), json!(null))),
                    Err(at) => r.dis(&["C01"], &format!("panic@{}", short_at(&at)), det(&s, json!(null), json!({"api": concat!($name, "::from_str"), "panic": at}))),
                }
            }
        }};
    }
    one!(0, "Language", Language);
    one!(1, "Script", Script);
    one!(2, "Region", Region);
    one!(3, "Variant", Variant);
    // raw integer forms (C17): to integer and back through the unchecked constructor
    if is[0].as_bool() == Some(true) {
        if let Ok(l) = Language::from_bytes(&s) {
            let raw: Option<u64> = l.into();
            let exp_raw = &c["raw"][0];
            match raw {
                None => {
                    if l.as_str() != "und" || !l.is_empty() {
                        r.dis(&["C15", "C17"], "Language-none-not-und", det(&s, json!("und"), json!(l.as_str())));
                    }
                }
                Some(x) => {
                    if bytes(&x.to_le_bytes()) != *exp_raw {
                        r.dis(&["C17"], "Language-raw-form", det(&s, exp_raw.clone(), bytes(&x.to_le_bytes())));
                    }
                    r.raw_form(0, x, l.as_str());
                    let back = unsafe { Language::from_raw_unchecked(x) };
                    if back != l || back.as_str() != l.as_str() {
                        r.dis(&["C17"], "Language-raw-roundtrip", det(&s, json!(l.as_str()), json!(back.as_str())));
                    }
                }
            }
            r.stat("raw_language");
        }
    }
    if is[1].as_bool() == Some(true) {
        if let Ok(v) = Script::from_bytes(&s) {
            let x: u32 = v.into();
            if bytes(&x.to_le_bytes()) != c["raw"][1] {
                r.dis(&["C17"], "Script-raw-form", det(&s, c["raw"][1].clone(), bytes(&x.to_le_bytes())));
            }
            r.raw_form(1, x as u64, v.as_str());
            let back = unsafe { Script::from_raw_unchecked(x) };
            if back != v || back.as_str() != v.as_str() {
                r.dis(&["C17"], "Script-raw-roundtrip", det(&s, json!(v.as_str()), json!(back.as_str())));
            }
            r.stat("raw_script");
        }
    }
    if is[2].as_bool() == Some(true) {
        if let Ok(v) = Region::from_bytes(&s) {
            let x: u32 = v.into();
            if bytes(&x.to_le_bytes()) != c["raw"][2] {
                r.dis(&["C17"], "Region-raw-form", det(&s, c["raw"][2].clone(), bytes(&x.to_le_bytes())));
            }
            r.raw_form(2, x as u64, v.as_str());
            let back = unsafe { Region::from_raw_unchecked(x) };
            if back != v || back.as_str() != v.as_str() {
                r.dis(&["C17"], "Region-raw-roundtrip", det(&s, json!(v.as_str()), json!(back.as_str())));
            }
            r.stat("raw_region");
        }
    }
    if is[3].as_bool() == Some(true) {
        if let Ok(v) = Variant::from_bytes(&s) {
            let x: u64 = v.into();
            if bytes(&x.to_le_bytes()) != c["raw"][3] {
                r.dis(&["C17"], "Variant-raw-form", det(&s, c["raw"][3].clone(), bytes(&x.to_le_bytes())));
            }
            r.raw_form(3, x, v.as_str());
            let back = unsafe { Variant::from_raw_unchecked(x) };
            if back != v || back.as_str() != v.as_str() {
                r.dis(&["C17"], "Variant-raw-roundtrip", det(&s, json!(v.as_str()), json!(back.as_str())));
            }
            r.stat("raw_variant");
        }
    }
}

/// Build the start value of a history: default() for an empty string, else parse.
fn start_value(start: &[u8]) -> Result<Locale, String> {
    if start.is_empty() {
        Ok(Locale::default())
    } else {
        Locale::from_bytes(start).map_err(|e| format!("{:?}", e))
    }
}

/// history case: apply every operation, compare result + projection + text after every step
pub fn check_hist(r: &mut Recorder, c: &Value) {
    let start = unbytes(&c["start"]);
    r.stat("hist");
    let mut loc = match guard(|| start_value(&start)) {
        Ok(Ok(l)) => l,
        Ok(Err(e)) => {
            r.dis(&["C05", "C10"], "hist-start-does-not-parse", det(&start, json!("ok"), json!(e)));
            return;
        }
        Err(at) => {
            r.dis(&["C01"], &format!("panic@{}", short_at(&at)), det(&start, json!(null), json!({"api":"Locale::from_bytes","panic":at})));
            return;
        }
    };
    if let Some(sv) = c.get("startval") {
        if !sv.is_null() && proj_loc(&loc) != *sv {
            r.dis(&["C03", "C10"], "hist-start-value", det(&start, sv.clone(), proj_loc(&loc)));
            return;
        }
    }
    let steps = c["steps"].as_array().cloned().unwrap_or_default();
    let mut trail: Vec<Value> = Vec::new();
    for st in steps.iter() {
        let op = &st["op"];
        trail.push(op.clone());
        r.stat("hist_step");
        r.stat(&format!("op_{}", op["op"].as_str().unwrap_or("?")));
        let before = proj_loc(&loc);
        // value semantics: the same operation on a CLONE of the value and on the value REBUILT from its parts
        // (into_parts / from_parts) must do what it does on the original, and must leave the original alone
        let mut twin_clone = loc.clone();
        let mut twin_parts: Option<Locale> = guard(|| {
            let (l, s, rg, v, ext) = loc.clone().into_parts();
            ExtensionsMap::from_str(&ext).ok().map(|em| Locale::from_parts(l, s, rg, &v, Some(em)))
        }).ok().flatten();
        let res = guard(|| ops::apply(&mut loc, op));
        let res = match res {
            Ok(x) => x,
            Err(at) => {
                r.dis(&["C01", "C10"], &format!("panic@{}", short_at(&at)),
                      json!({"start": show(&start), "start_bytes": bytes(&start), "history": trail, "panic": at}));
                return;
            }
        };
        let after = proj_loc(&loc);
        let ser = loc.to_string();
        if proj_loc(&twin_clone) != before {
            r.dis(&["C10"], "mutation-of-the-original-shows-in-its-clone", json!({"start": show(&start), "history": trail, "clone": proj_loc(&twin_clone), "before": before}));
        }
        match guard(|| ops::apply(&mut twin_clone, op)) {
            Ok(rc) => {
                if rc != res || proj_loc(&twin_clone) != after || twin_clone.to_string() != ser || (twin_clone == loc) != true {
                    r.dis(&["C10"], "clone-behaves-differently", json!({"start": show(&start), "history": trail, "original": {"res": res, "st": after}, "clone": {"res": rc, "st": proj_loc(&twin_clone)}}));
                }
                if proj_loc(&loc) != after {
                    r.dis(&["C10"], "mutation-of-a-clone-shows-in-the-original", json!({"start": show(&start), "history": trail}));
                }
            }
            Err(at) => r.dis(&["C01", "C10"], &format!("panic@{}", short_at(&at)), json!({"start": show(&start), "history": trail, "on": "clone", "panic": at})),
        }
        if let Some(tp) = twin_parts.as_mut() {
            if proj_loc(tp) == before {
                match guard(|| ops::apply(tp, op)) {
                    Ok(rp) => {
                        if rp != res || proj_loc(tp) != after || tp.to_string() != ser || (*tp == loc) != true {
                            r.dis(&["C17", "C10"], "value-rebuilt-from-its-parts-behaves-differently", json!({"start": show(&start), "history": trail, "original": {"res": res, "st": after}, "rebuilt": {"res": rp, "st": proj_loc(tp)}}));
                        }
                    }
                    Err(at) => r.dis(&["C01", "C10"], &format!("panic@{}", short_at(&at)), json!({"start": show(&start), "history": trail, "on": "value rebuilt from its parts", "panic": at})),
                }
                r.stat("hist_step_on_rebuilt_value");
            }
        }
        let mut bad: Vec<&str> = Vec::new();
        if res != st["res"] {
            bad.push("result");
        }
        if after != st["st"] {
            bad.push("state");
        }
        if b(&ser) != st["ser"] {
            bad.push("text");
        }
        if res["k"] == "err" && after != before {
            bad.push("error-changed-value");
        }
        if empties(&loc.extensions) != st["empties"] && !st["empties"].is_null() {
            bad.push("is_empty");
        }
        if loc.id.language.is_empty() != (loc.id.language.as_str() == "und") {
            bad.push("language-is_empty");
        }
        if !bad.is_empty() {
            // maximize / minimize: the properties also allow the answer of an implementation that uses the optional
            // UTS #35 fallbacks.  It leaves the path this history was computed along: stop comparing, keep the value checks.
            let alts: Vec<Value> = st.get("alt").and_then(|a| a.as_array().cloned()).unwrap_or_default();
            for alt in alts.iter() {
                if res == alt["res"] && after == alt["st"] && b(&ser) == alt["ser"] && !bad.contains(&"language-is_empty") {
                    r.stat("hist_allowed_alternative");
                    let desc = format!("history of {} ops from '{}' (allowed alternative taken)", trail.len(), show(&start));
                    check_loc_value(r, desc.as_bytes(), &loc, "hist");
                    return;
                }
            }
            let mut props = vec!["C10"];
            if bad.contains(&"text") {
                props.push("C04");
            }
            let opn = op["op"].as_str().unwrap_or("?");
            if opn == "reparse" {
                props.push("C05");
            }
            if opn == "maximize" {
                props.push("C07");
            }
            if opn == "minimize" {
                props.push("C08");
            }
            r.dis(&props, &format!("hist-{}-{}", opn, bad.join("+")),
                  json!({"start": show(&start), "start_bytes": bytes(&start), "history": trail,
                         "expected": {"res": st["res"], "st": st["st"], "ser": st["ser"]},
                         "observed": {"res": res, "st": after, "ser": ser}}));
            // the value the object now holds still owes the value-level obligations (round trip, parts), whatever the model says
            let desc = format!("history of {} ops from '{}' (after diverging from the model)", trail.len(), show(&start));
            check_loc_value(r, desc.as_bytes(), &loc, "hist");
            return; // the model and the object have diverged; later steps would only echo this
        }
    }
    // the value reached by the history obeys the value-level obligations too
    let desc = format!("history of {} ops from '{}'", trail.len(), show(&start));
    check_loc_value(r, desc.as_bytes(), &loc, "hist");
}

/// matches case: all four flag pairs for one pair of locales given as canonical text
pub fn check_match(r: &mut Recorder, c: &Value) {
    let a = unbytes(&c["a"]);
    let bb = unbytes(&c["b"]);
    r.stat("match_pair");
    let parsed = guard(|| (Locale::from_bytes(&a), Locale::from_bytes(&bb)));
    let (la, lb) = match parsed {
        Ok((Ok(x), Ok(y))) => (x, y),
        Ok(_) => {
            r.dis(&["C03", "C11"], "match-operand-does-not-parse", json!({"a": show(&a), "b": show(&bb)}));
            return;
        }
        Err(at) => {
            r.dis(&["C01"], &format!("panic@{}", short_at(&at)), json!({"a": show(&a), "b": show(&bb), "panic": at}));
            return;
        }
    };
    let flags = [(false, false), (false, true), (true, false), (true, true)];
    for (i, (ra, rb)) in flags.iter().enumerate() {
        let exp_loc = c["loc"][i].as_bool();
        let exp_li = c["li"][i].as_bool();
        let got = guard(|| {
            let m_loc = la.matches(&lb, *ra, *rb);
            let m_li = la.id.matches(&lb.id, *ra, *rb);
            // a LanguageIdentifier matched against a Locale's id directly (AsRef)
            let m_mixed = la.id.matches(&lb, *ra, *rb);
            let m_lang = la.id.language.matches(lb.id.language, *ra, *rb);
            // the very same object on both sides must fare like an equal value at another address (no identity short cut
            // in front of the private-use rule); a clone of it likewise
            let twin = la.clone();
            let self_ok = la.matches(&la, *ra, *rb) == la.matches(&twin, *ra, *rb) && la.id.matches(&la.id, *ra, *rb) == la.id.matches(&twin.id, *ra, *rb);
            (m_loc, m_li, m_mixed, m_lang, self_ok)
        });
        match got {
            Err(at) => {
                r.dis(&["C01"], &format!("panic@{}", short_at(&at)), json!({"a": show(&a), "b": show(&bb), "panic": at}));
                return;
            }
            Ok((m_loc, m_li, m_mixed, m_lang, self_ok)) => {
                r.stat("match_eval");
                if !self_ok {
                    r.dis(&["C11"], "matches-depends-on-operand-identity", json!({"a": show(&a), "self_as_range": ra, "other_as_range": rb}));
                }
                if Some(m_loc) != exp_loc {
                    r.dis(&["C11"], "locale-matches", json!({"a": show(&a), "b": show(&bb), "self_as_range": ra, "other_as_range": rb, "expected": exp_loc, "observed": m_loc}));
                }
                if Some(m_li) != exp_li || m_mixed != m_li {
                    r.dis(&["C11"], "langid-matches", json!({"a": show(&a), "b": show(&bb), "self_as_range": ra, "other_as_range": rb, "expected": exp_li, "observed": [m_li, m_mixed]}));
                }
                if Some(m_lang) != c["lang"][i].as_bool() {
                    r.dis(&["C11"], "language-matches", json!({"a": show(&a), "b": show(&bb), "self_as_range": ra, "other_as_range": rb, "expected": c["lang"][i], "observed": m_lang}));
                }
            }
        }
    }
}

fn hash_of<T: std::hash::Hash>(t: &T) -> u64 {
    use std::hash::Hasher;
    let mut h = std::collections::hash_map::DefaultHasher::new();
    t.hash(&mut h);
    h.finish()
}

fn ord_name(o: std::cmp::Ordering) -> &'static str {
    match o {
        std::cmp::Ordering::Less => "lt",
        std::cmp::Ordering::Equal => "eq",
        std::cmp::Ordering::Greater => "gt",
    }
}

/// comparison case: two values given by operation histories (routes) from default()
fn build(route: &Value) -> Result<Locale, String> {
    let start = unbytes(&route["start"]);
    let mut loc = start_value(&start)?;
    for op in route["ops"].as_array().cloned().unwrap_or_default().iter() {
        let res = ops::apply(&mut loc, op);
        if res["k"] != "ok" {
            return Err(format!("route op failed: {} -> {}", op, res));
        }
    }
    Ok(loc)
}

pub fn check_cmp(r: &mut Recorder, c: &Value) {
    r.stat("cmp_pair");
    let built = guard(|| (build(&c["a"]), build(&c["b"])));
    let (la, lb) = match built {
        Ok((Ok(x), Ok(y))) => (x, y),
        Ok((x, y)) => {
            r.dis(&["C10", "C12"], "cmp-route-failed", json!({"case": c, "a": x.err(), "b": y.err()}));
            return;
        }
        Err(at) => {
            r.dis(&["C01"], &format!("panic@{}", short_at(&at)), json!({"case": c, "panic": at}));
            return;
        }
    };
    r.pool_add(&la);
    r.pool_add(&lb);
    let exp_eq = c["eq"].as_bool().unwrap_or(false);
    // ==, cmp and hash are functions of the VALUE: printing one operand (or both) in between must not change them
    // (a lazily filled cache inside the value that takes part in the derived Eq / Ord / Hash would)
    let obs = |x: &Locale, y: &Locale| (x == y, x.cmp(y), hash_of(x) == hash_of(y), x.id == y.id, x.extensions == y.extensions);
    let o0 = obs(&la, &lb);
    let sa = la.to_string();
    let o1 = obs(&la, &lb);
    let sb = lb.to_string();
    let o2 = obs(&la, &lb);
    if o0 != o1 || o1 != o2 {
        r.dis(&["C12"], "eq-cmp-or-hash-changes-when-an-operand-is-printed", json!({"a": sa, "b": sb, "routes": [c["a"], c["b"]],
              "before": format!("{:?}", o0), "after_printing_a": format!("{:?}", o1), "after_printing_both": format!("{:?}", o2)}));
    }
    if b(&sa) != c["sa"] || b(&sb) != c["sb"] {
        r.dis(&["C10", "C04"], "cmp-route-text", json!({"case": c, "observed": [sa, sb]}));
        return;
    }
    let eq = la == lb;
    let ord = la.cmp(&lb);
    let rev = lb.cmp(&la);
    let detail = || json!({"a": sa, "b": sb, "routes": [c["a"], c["b"]], "eq": eq, "cmp": ord_name(ord), "str_eq": sa == sb});
    if eq != exp_eq || eq != (sa == sb) {
        r.dis(&["C12"], "eq-vs-canonical-text", detail());
    }
    if eq != (ord == std::cmp::Ordering::Equal) || la.partial_cmp(&lb) != Some(ord) {
        r.dis(&["C12"], "cmp-inconsistent-with-eq", detail());
    }
    if ord != rev.reverse() {
        r.dis(&["C12"], "cmp-not-antisymmetric", detail());
    }
    if eq && hash_of(&la) != hash_of(&lb) {
        r.dis(&["C12"], "equal-values-hash-differently", detail());
    }
    // language identifiers: the order is fixed field by field
    let lio = la.id.cmp(&lb.id);
    if json!(ord_name(lio)) != c["li_ord"] {
        r.dis(&["C12"], "langid-order", json!({"a": la.id.to_string(), "b": lb.id.to_string(), "expected": c["li_ord"], "observed": ord_name(lio)}));
    }
    if (la.id == lb.id) != (lio == std::cmp::Ordering::Equal) || (la.id == lb.id) != (la.id.to_string() == lb.id.to_string()) {
        r.dis(&["C12"], "langid-eq", detail());
    }
    if la.id == lb.id && hash_of(&la.id) != hash_of(&lb.id) {
        r.dis(&["C12"], "equal-langids-hash-differently", detail());
    }
    if (la.extensions == lb.extensions) != (la.extensions.to_string() == lb.extensions.to_string()) {
        r.dis(&["C12"], "extmap-eq-vs-text", detail());
    }
    // comparison with &str
    if (la.id == lb.id.to_string().as_str()) != (la.id.to_string() == lb.id.to_string()) {
        r.dis(&["C12"], "langid-eq-str", detail());
    }
    // locale order must extend... only required: equal ids => order decided by extensions, total
    if la.id != lb.id && ord != lio {
        r.dis(&["C12"], "locale-order-not-by-id-first", detail());
    }
}

/// Strict-total-order axioms of the type's own `Ord`, across every pair of a set of values with distinct texts (C12):
/// sort with `cmp`, then in the sorted sequence no later element may compare Less than (or Equal to) an earlier one, `==`
/// must be false, `partial_cmp` must agree and the reverse comparison must be the mirror image.  A comparator that is not
/// transitive, not antisymmetric or not consistent with equality cannot pass on a set that contains a witness.
fn order_axioms<T: Ord + Clone + PartialEq>(r: &mut Recorder, name: &str, items: &[(String, T)]) {
    let mut idx: Vec<usize> = (0..items.len()).collect();
    let sorted = guard(|| {
        idx.sort_by(|&a, &b| items[a].1.cmp(&items[b].1));
        idx
    });
    let idx = match sorted {
        Ok(i) => i,
        Err(at) => {
            // since Rust 1.81 the standard sort may detect an inconsistent comparator and panic
            r.dis(&["C12"], &format!("{}-order-not-total-sort-panicked", name), json!({"panic": at, "values": items.len()}));
            return;
        }
    };
    r.stat_n(&format!("order_pool_{}", name), items.len() as u64);
    let mut reported = 0;
    for i in 0..idx.len() {
        for j in (i + 1)..idx.len() {
            let (ta, a) = &items[idx[i]];
            let (tb, bb) = &items[idx[j]];
            let o = a.cmp(bb);
            let rev = bb.cmp(a);
            let bad = if o != std::cmp::Ordering::Less { Some("later-element-not-greater") }
                      else if rev != std::cmp::Ordering::Greater { Some("not-antisymmetric") }
                      else if a == bb { Some("eq-although-texts-differ") }
                      else if a.partial_cmp(bb) != Some(o) { Some("partial_cmp-differs") }
                      else { None };
            if let Some(what) = bad {
                r.dis(&["C12"], &format!("{}-order-axiom-{}", name, what),
                      json!({"a": ta, "b": tb, "cmp_ab": ord_name(o), "cmp_ba": ord_name(rev), "eq": a == bb,
                             "note": "a precedes b after sorting the pool with the type's own cmp", "pool": items.len()}));
                reported += 1;
                if reported > 5 { return; }
            }
        }
    }
}

/// the order axioms over every value this run reached (Locale and each of its public ordered parts)
pub fn check_order_pool(r: &mut Recorder) {
    let pool = std::mem::take(&mut r.pool);
    if pool.len() < 2 {
        return;
    }
    fn distinct<T: Clone>(xs: Vec<(String, T)>) -> Vec<(String, T)> {
        let mut seen = std::collections::HashSet::new();
        xs.into_iter().filter(|(t, _)| seen.insert(t.clone())).collect()
    }
    order_axioms(r, "Locale", &distinct(pool.iter().map(|l| (l.to_string(), l.clone())).collect()));
    order_axioms(r, "LanguageIdentifier", &distinct(pool.iter().map(|l| (l.id.to_string(), l.id.clone())).collect()));
    order_axioms(r, "ExtensionsMap", &distinct(pool.iter().map(|l| (l.extensions.to_string(), l.extensions.clone())).collect()));
    order_axioms(r, "UnicodeExtensionList", &distinct(pool.iter().map(|l| (l.extensions.unicode.to_string(), l.extensions.unicode.clone())).collect()));
    order_axioms(r, "TransformExtensionList", &distinct(pool.iter().map(|l| (l.extensions.transform.to_string(), l.extensions.transform.clone())).collect()));
    order_axioms(r, "PrivateExtensionList", &distinct(pool.iter().map(|l| (l.extensions.private.to_string(), l.extensions.private.clone())).collect()));
    order_axioms(r, "Language", &distinct(pool.iter().map(|l| (l.id.language.to_string(), l.id.language)).collect()));
    // field-by-field with an absent subtag first: the language identifiers, sorted by the library, are sorted by the model order too
    let mut ids: Vec<LanguageIdentifier> = pool.iter().map(|l| l.id.clone()).collect();
    ids.sort();
    ids.dedup();
    let key = |x: &LanguageIdentifier| -> (Vec<u8>, Vec<u8>, Vec<u8>, Vec<Vec<u8>>) {
        (if x.language.is_empty() { vec![] } else { x.language.as_str().as_bytes().to_vec() },
         x.script.map(|s| s.as_str().as_bytes().to_vec()).unwrap_or_default(),
         x.region.map(|s| s.as_str().as_bytes().to_vec()).unwrap_or_default(),
         x.variants().map(|v| v.as_str().as_bytes().to_vec()).collect())
    };
    for w in ids.windows(2) {
        if key(&w[0]) >= key(&w[1]) {
            r.dis(&["C12"], "langid-pool-order-not-field-by-field", json!({"a": w[0].to_string(), "b": w[1].to_string()}));
            break;
        }
    }
}

/// MC_Iter.tla: the streaming readers (a peekable iterator of subtags with a cursor that outlives the call).
/// No listed property names these #[doc(hidden)] entry points: a disagreement is counted as drift; a panic is C01.
#[cfg(feature = "iterapi")]
pub fn check_iter(r: &mut Recorder, c: &Value) {
    let toks = unbytes_list(&c["toks"]);
    let allow = c["allow"].as_bool().unwrap_or(false);
    r.stat("iter_cases");
    let run = |which: u8| {
        let mut it = toks.iter().map(|t| t.as_slice()).peekable();
        let res = if which == 0 { LanguageIdentifier::try_from_iter(&mut it, allow).map_err(|e| li_err_kind(&e).to_string()) }
                  else { unic_langid_impl::parser::parse_language_identifier_from_iter(&mut it, allow).map_err(|e| format!("{:?}", e)) };
        let peeked = it.peek().map(|t| t.to_vec());
        let rest = it.count();
        (res, rest, peeked)
    };
    for which in 0..2u8 {
        match guard(|| run(which)) {
            Err(at) => { r.dis(&["C01"], &format!("panic@{}", short_at(&at)), json!({"api": "try_from_iter", "toks": c["toks"], "allow": allow, "panic": at})); return; }
            Ok((res, rest, peeked)) => {
                let exp_ok = c["ok"].as_bool().unwrap_or(false);
                let mut drift: Vec<&str> = Vec::new();
                match &res {
                    Ok(v) => {
                        if !exp_ok { drift.push("accepts"); }
                        else {
                            if proj_li(v) != c["val"] { drift.push("value"); }
                            if json!(rest) != c["rest"] { drift.push("cursor"); }
                            let n = toks.len() - rest.min(toks.len());
                            if rest > 0 && peeked.as_ref() != toks.get(n) { drift.push("peeked-subtag"); }
                        }
                    }
                    Err(e) => {
                        if exp_ok { drift.push("rejects"); }
                        else if which == 0 && json!(e) != c["err"] { drift.push("error-kind"); }
                    }
                }
                if drift.is_empty() { r.stat("iter_agree"); } else { r.stat(&format!("iter_drift_{}", drift.join("+"))); }
            }
        }
    }
    // the other public doors to the same parsers
    if !toks.is_empty() {
        let text = join(&toks);
        let doors = guard(|| {
            let a = unic_langid_impl::parser::parse_language_identifier(&text).ok();
            let b2 = LanguageIdentifier::from_bytes(&text).ok();
            let c2 = unic_locale_impl::parser::parse_locale(&text).ok();
            let d = Locale::from_bytes(&text).ok();
            (a == b2, c2 == d)
        });
        match doors {
            Err(at) => r.dis(&["C01"], &format!("panic@{}", short_at(&at)), json!({"api": "parser::parse_*", "input": show(&text), "panic": at})),
            Ok((x, y)) => { if x && y { r.stat("iter_doors_agree"); } else { r.stat("iter_drift_doors"); } }
        }
        // Locale parsing is the composition of the two public readers
        if allow {
            let comp = guard(|| {
                let mut it = toks.iter().map(|t| t.as_slice()).peekable();
                let id = LanguageIdentifier::try_from_iter(&mut it, true).ok();
                let rest: Vec<Vec<u8>> = it.map(|t| t.to_vec()).collect();
                let ext = if rest.is_empty() { Some(ExtensionsMap::default()) } else { ExtensionsMap::from_bytes(&join(&rest)).ok() };
                let whole = Locale::from_bytes(&text).ok();
                match (id, ext, whole) {
                    (Some(i), Some(e), Some(w)) => w.id == i && w.extensions == e,
                    (Some(_), Some(_), None) => false,
                    (_, _, None) => true,
                    (_, _, Some(_)) => false,
                }
            });
            match comp {
                Err(at) => r.dis(&["C01"], &format!("panic@{}", short_at(&at)), json!({"api": "try_from_iter + ExtensionsMap::from_bytes", "input": show(&text), "panic": at})),
                Ok(true) => r.stat("iter_composition_agrees"),
                Ok(false) => r.stat("iter_drift_composition"),
            }
        }
    }
}
#[cfg(not(feature = "iterapi"))]
pub fn check_iter(r: &mut Recorder, _c: &Value) {
    r.stat("iter_api_not_built");
}

/// metamorphic case (C09): two inputs that differ by a meaning-preserving transformation
pub fn check_meta(r: &mut Recorder, c: &Value) {
    let a = unbytes(&c["a"]);
    let bb = unbytes(&c["b"]);
    r.stat("meta_pair");
    r.stat(&format!("meta_{}", c["tr"].as_str().unwrap_or("?")));
    let got = guard(|| (Locale::from_bytes(&a), Locale::from_bytes(&bb), LanguageIdentifier::from_bytes(&a), LanguageIdentifier::from_bytes(&bb)));
    match got {
        Err(at) => r.dis(&["C01"], &format!("panic@{}", short_at(&at)), json!({"a": show(&a), "b": show(&bb), "panic": at})),
        Ok((la, lb, ia, ib)) => {
            let same_loc = match (&la, &lb) {
                (Ok(x), Ok(y)) => x == y && x.to_string() == y.to_string(),
                (Err(_), Err(_)) => true,
                _ => false,
            };
            if !same_loc {
                r.dis(&["C09"], &format!("meta-locale-{}", c["tr"].as_str().unwrap_or("?")),
                      json!({"a": show(&a), "b": show(&bb), "a_bytes": bytes(&a), "b_bytes": bytes(&bb), "transform": c["tr"],
                             "ra": format!("{:?}", la.as_ref().map(|x| x.to_string()).map_err(|e| format!("{:?}", e))),
                             "rb": format!("{:?}", lb.as_ref().map(|x| x.to_string()).map_err(|e| format!("{:?}", e)))}));
            }
            let same_li = match (&ia, &ib) {
                (Ok(x), Ok(y)) => x == y && x.to_string() == y.to_string(),
                (Err(_), Err(_)) => true,
                _ => false,
            };
            if !same_li {
                r.dis(&["C09"], &format!("meta-langid-{}", c["tr"].as_str().unwrap_or("?")),
                      json!({"a": show(&a), "b": show(&bb), "a_bytes": bytes(&a), "b_bytes": bytes(&bb), "transform": c["tr"],
                             "ra": format!("{:?}", ia.as_ref().map(|x| x.to_string()).map_err(|e| format!("{:?}", e))),
                             "rb": format!("{:?}", ib.as_ref().map(|x| x.to_string()).map_err(|e| format!("{:?}", e)))}));
            }
        }
    }
}

/// from_parts case (C17): variants in any order with duplicates
pub fn check_parts(r: &mut Recorder, c: &Value) {
    r.stat("parts");
    let lang = unbytes(&c["lang"]);
    let script = unbytes(&c["script"]);
    let region = unbytes(&c["region"]);
    let vs = unbytes_list(&c["variants"]);
    let res = guard(|| -> Result<LanguageIdentifier, String> {
        let l = Language::from_bytes(&lang).map_err(|e| format!("{:?}", e))?;
        let s = if script.is_empty() { None } else { Some(Script::from_bytes(&script).map_err(|e| format!("{:?}", e))?) };
        let rg = if region.is_empty() { None } else { Some(Region::from_bytes(&region).map_err(|e| format!("{:?}", e))?) };
        let v: Result<Vec<Variant>, _> = vs.iter().map(|x| Variant::from_bytes(x)).collect();
        let v = v.map_err(|e| format!("{:?}", e))?;
        Ok(LanguageIdentifier::from_parts(l, s, rg, &v))
    });
    match res {
        Err(at) => r.dis(&["C01"], &format!("panic@{}", short_at(&at)), json!({"case": c, "panic": at})),
        Ok(Err(e)) => r.dis(&["C15", "C17"], "parts-subtag-rejected", json!({"case": c, "err": e})),
        Ok(Ok(li)) => {
            let p = proj_li(&li);
            let ser = li.to_string();
            if p != c["val"] || b(&ser) != c["ser"] {
                r.dis(&["C17", "C04"], "from-parts-value", json!({"case": c, "observed": {"val": p, "ser": ser}}));
            }
            // equals parsing the joined string
            let joined = unbytes(&c["joined"]);
            match guard(|| LanguageIdentifier::from_bytes(&joined)) {
                Ok(Ok(l2)) => {
                    if l2 != li {
                        r.dis(&["C17"], "from-parts-differs-from-parse", json!({"case": c, "joined": show(&joined), "parsed": proj_li(&l2), "from_parts": p}));
                    }
                }
                other => r.dis(&["C17"], "from-parts-joined-does-not-parse", json!({"case": c, "joined": show(&joined), "observed": format!("{:?}", other.map(|x| x.map(|y| y.to_string())))})),
            }
            // into_parts . from_parts = id
            let (l, s, rg, v) = li.clone().into_parts();
            let back = LanguageIdentifier::from_parts(l, s, rg, &v);
            if back != li {
                r.dis(&["C17"], "langid-parts-roundtrip", json!({"case": c, "observed": proj_li(&back)}));
            }
            // and through Locale
            let loc = Locale::from_parts(l, s, rg, &v, None);
            if loc.id != li || !loc.extensions.is_empty() {
                r.dis(&["C17"], "locale-from-parts", json!({"case": c, "observed": proj_loc(&loc)}));
            }
            check_loc_value(r, &joined, &loc, "parts");
        }
    }
}

pub fn dispatch(r: &mut Recorder, c: &Value) {
    match c["k"].as_str().unwrap_or("") {
        "parse" => {
            let toks = unbytes_list(&c["toks"]);
            // "seps" (optional): the separator byte in front of token 2, 3, ... ('-' when absent)
            let input = match c.get("seps").and_then(|x| x.as_array()) {
                Some(seps) => {
                    let mut v = Vec::new();
                    for (i, t) in toks.iter().enumerate() {
                        if i > 0 { v.push(seps.get(i - 1).and_then(|b| b.as_u64()).unwrap_or(45) as u8); }
                        v.extend_from_slice(t);
                    }
                    v
                }
                None => join(&toks),
            };
            // "after" (optional): a well-formed text to be parsed through every door FIRST, so that whatever the library
            // remembers of it (a memo keyed by a folded or padded form of the input) is there when the case itself is parsed
            if let Some(a) = c.get("after") {
                let a = unbytes(a);
                if !a.is_empty() {
                    let _ = guard(|| {
                        let _ = LanguageIdentifier::from_bytes(&a);
                        let _ = Locale::from_bytes(&a);
                        let _ = unic_langid_impl::canonicalize(&a);
                        let _ = unic_locale_impl::canonicalize(&a);
                        if let Some(p) = a.iter().position(|x| *x == b'-' || *x == b'_') { let _ = LanguageIdentifier::from_bytes(&a[..p]); let _ = Language::from_bytes(&a[..p]); }
                        #[cfg(feature = "serde")]
                        if let Ok(t) = std::str::from_utf8(&a) {
                            let _ = serde_json::from_str::<LanguageIdentifier>(&format!("\"{}\"", t));
                            let _ = serde_json::from_str::<LanguageIdentifier>(&format!("\"{}\"", t.split(|ch| ch == '-' || ch == '_').take(2).collect::<Vec<_>>().join("-")));
                        }
                    });
                    r.stat("parse_after_a_wellformed_twin");
                }
            }
            if let Some(li) = c.get("li") {
                check_li(r, &input, li);
            }
            if let Some(loc) = c.get("loc") {
                check_loc(r, &input, loc);
            }
            if let Some(ext) = c.get("ext") {
                check_ext(r, &input, ext);
            }
            if let Some(im) = c.get("impl") {
                check_impl(r, &input, im);
            }
            #[cfg(feature = "serde")]
            if let Some(li) = c.get("li") {
                crate::serde_chk::check_serde(r, &input, li);
            }
        }
        "sub" => check_sub(r, c),
        "hist" => check_hist(r, c),
        "match" => check_match(r, c),
        "cmp" => check_cmp(r, c),
        "meta" => check_meta(r, c),
        "parts" => check_parts(r, c),
        #[cfg(feature = "likelysubtags")]
        "likely" => crate::likely::check_likely(r, c),
        "dir" => crate::dir::check_dir(r, c),
        "seq" => crate::dir::check_seq(r, c),
        "iter" => check_iter(r, c),
        "sweep" | "sweep_dir" | "sweep_universe" => {
            let mut sw = r.sweep.take().unwrap_or_default();
            sw.add(r, c);
            r.sweep = Some(sw);
        }
        other => {
            r.stat(&format!("unknown_kind_{}", other));
        }
    }
}
