//! Whole-universe sweep of maximize / minimize / character_direction, decided per equivalence class.
//! TLC (MC_Sweep.tla) prints one case per class with the allowed answer PATTERNS and one case holding the
//! universe; this module calls the real code on every triple of the universe, maps the triple to its class
//! and compares.  `$l`, `$s`, `$r` in a pattern stand for "the subtag that was given".
use crate::rec::*;
use serde_json::{json, Value};
use std::collections::{BTreeSet, HashMap};
use std::sync::atomic::{AtomicU64, Ordering};
use std::sync::Arc;
use unic_langid_impl::subtags::{Language, Region, Script};
use unic_langid_impl::LanguageIdentifier;

#[derive(Clone, Debug)]
enum P<T> {
    Given,
    Absent,
    Lit(T),
}

#[derive(Clone, Debug)]
struct Pat {
    changed: bool,
    l: P<Language>,
    s: P<Script>,
    r: P<Region>,
    text: String,
}

#[derive(Default)]
pub struct Sweep {
    universe: Option<Value>,
    /// (l, s, r) class names -> (allowed max patterns, allowed min patterns)
    classes: HashMap<(String, String, String), (Vec<Pat>, Vec<Pat>)>,
    /// (l, s) class names -> (allowed with likely subtags, allowed without)
    dir: HashMap<(String, String), (Vec<String>, Vec<String>)>,
}

fn pat(v: &Value) -> Option<Pat> {
    let a = v.as_array()?;
    let t = a.get(1)?.as_array()?;
    let g = |i: usize| t.get(i).and_then(|x| x.as_str()).unwrap_or("");
    Some(Pat {
        changed: a.first()?.as_bool()?,
        l: if g(0) == "$l" { P::Given } else { P::Lit(Language::from_bytes(g(0).as_bytes()).ok()?) },
        s: match g(1) {
            "$s" => P::Given,
            "" => P::Absent,
            x => P::Lit(Script::from_bytes(x.as_bytes()).ok()?),
        },
        r: match g(2) {
            "$r" => P::Given,
            "" => P::Absent,
            x => P::Lit(Region::from_bytes(x.as_bytes()).ok()?),
        },
        text: v.to_string(),
    })
}

fn pats(v: &Value) -> Vec<Pat> {
    v.as_array().map(|a| a.iter().filter_map(pat).collect()).unwrap_or_default()
}

fn strs(v: &Value) -> Vec<String> {
    v.as_array().map(|a| a.iter().filter_map(|x| x.as_str().map(|s| s.to_string())).collect()).unwrap_or_default()
}

type Triple = (Language, Option<Script>, Option<Region>);

fn fits(p: &Pat, input: &Triple, out: &Option<Triple>) -> bool {
    let (changed, t) = match out {
        Some(t) => (true, *t),
        None => (false, *input),
    };
    if changed != p.changed {
        return false;
    }
    let l_ok = match &p.l {
        P::Given => t.0 == input.0,
        P::Lit(x) => t.0 == *x,
        P::Absent => false,
    };
    let s_ok = match &p.s {
        P::Given => t.1.is_some() && t.1 == input.1,
        P::Absent => t.1.is_none(),
        P::Lit(x) => t.1 == Some(*x),
    };
    let r_ok = match &p.r {
        P::Given => t.2.is_some() && t.2 == input.2,
        P::Absent => t.2.is_none(),
        P::Lit(x) => t.2 == Some(*x),
    };
    l_ok && s_ok && r_ok
}

fn show_triple(t: &Triple) -> String {
    format!("{}-{}-{}", t.0.as_str(), t.1.map(|s| s.as_str().to_string()).unwrap_or_default(),
            t.2.map(|s| s.as_str().to_string()).unwrap_or_default())
}

impl Sweep {
    pub fn add(&mut self, r: &mut Recorder, c: &Value) {
        match c["k"].as_str().unwrap_or("") {
            "sweep_universe" => {
                r.stat("sweep_universe");
                self.universe = Some(c.clone());
            }
            "sweep" => {
                r.stat("sweep_class");
                let key = (c["l"].as_str().unwrap_or("").to_string(), c["s"].as_str().unwrap_or("").to_string(),
                           c["r"].as_str().unwrap_or("").to_string());
                let (mx, mn) = (pats(&c["max"]), pats(&c["min"]));
                if mx.is_empty() || mn.is_empty() || mx.len() != c["max"].as_array().map(|a| a.len()).unwrap_or(0) {
                    r.stat("sweep_class_unreadable");
                }
                self.classes.insert(key, (mx, mn));
            }
            "sweep_dir" => {
                r.stat("sweep_dir_class");
                self.dir.insert((c["l"].as_str().unwrap_or("").to_string(), c["s"].as_str().unwrap_or("").to_string()),
                                (strs(&c["on"]), strs(&c["off"])));
            }
            _ => {}
        }
    }

    pub fn is_empty(&self) -> bool {
        self.universe.is_none() && self.classes.is_empty() && self.dir.is_empty()
    }

    /// `stride`/`offset`: sweep only the languages whose index is offset modulo stride (1 = all)
    pub fn run(&self, r: &mut Recorder, progress: Arc<AtomicU64>, stride: usize, offset: usize) {
        let u = match &self.universe {
            Some(u) => u,
            None => {
                r.stat("sweep_without_universe");
                return;
            }
        };
        let part = u["part"].as_str().unwrap_or("").to_string();
        let mut langs = strs(&u["langs"]);
        langs.sort();
        let scripts_known: BTreeSet<String> = strs(&u["scripts"]).into_iter().collect();
        let regions_known: BTreeSet<String> = strs(&u["regions"]).into_iter().collect();
        let listed: BTreeSet<String> = strs(&u["listed"]).into_iter().collect();
        let rtl: BTreeSet<String> = strs(&u["rtl"]).into_iter().collect();
        let lang_set: BTreeSet<String> = langs.iter().cloned().collect();
        // subtags the data does not know: representatives of the "other" classes
        let extra_s: Vec<String> = ["Qabx", "Qaby", "Xaaa", "Zyzy"].iter().map(|s| s.to_string())
            .filter(|s| !scripts_known.contains(s) && !listed.contains(s)).take(2).collect();
        let extra_r: Vec<String> = ["QX", "999", "QY", "XQ"].iter().map(|s| s.to_string())
            .filter(|s| !regions_known.contains(s)).take(2).collect();
        let unknown_l: Vec<String> = ["qqq", "qq", "qqqqq", "qqqqqq", "qqqqqqq", "qqqqqqqq", "zzx", "xzz", "aaq", "qaa", "enx", "undx_"]
            .iter().map(|s| s.to_string())
            .filter(|s| !lang_set.contains(s) && !rtl.contains(s) && Language::from_bytes(s.as_bytes()).is_ok()).collect();
        // the axes of the universe, as library values
        let mut s_axis: Vec<(String, Option<Script>)> = vec![(String::new(), None)];
        for s in scripts_known.iter().chain(extra_s.iter()) {
            match Script::from_bytes(s.as_bytes()) {
                Ok(x) => s_axis.push((s.clone(), Some(x))),
                Err(_) => r.dis(&["C15", "C18"], "sweep-script-rejected", json!({"script": s})),
            }
        }
        let mut r_axis: Vec<(String, Option<Region>)> = vec![(String::new(), None)];
        for s in regions_known.iter().chain(extra_r.iter()) {
            match Region::from_bytes(s.as_bytes()) {
                Ok(x) => r_axis.push((s.clone(), Some(x))),
                Err(_) => r.dis(&["C15", "C18"], "sweep-region-rejected", json!({"region": s})),
            }
        }
        let l_axis: Vec<(String, String)> = match part.as_str() {
            // (language text, class name)
            "known" => langs.iter().enumerate().filter(|(i, _)| i % stride == offset % stride).map(|(_, l)| (l.clone(), l.clone())).collect(),
            "und" => std::iter::once(("und".to_string(), "und".to_string()))
                .chain(unknown_l.iter().map(|l| (l.clone(), "$l".to_string()))).collect(),
            "dir" => langs.iter().enumerate().filter(|(i, l)| i % stride == offset % stride || rtl.contains(*l))
                .map(|(_, l)| (l.clone(), if rtl.contains(l) { l.clone() } else { "$l".to_string() }))
                .chain(std::iter::once(("und".to_string(), "und".to_string())))
                .chain(unknown_l.iter().map(|l| (l.clone(), "$l".to_string()))).collect(),
            _ => vec![],
        };
        r.stat_n("sweep_languages", l_axis.len() as u64);
        r.stat_n("sweep_scripts", s_axis.len() as u64);
        r.stat_n("sweep_regions", r_axis.len() as u64);
        let nthreads = std::thread::available_parallelism().map(|n| n.get()).unwrap_or(4).min(16);
        let chunk = (l_axis.len() + nthreads - 1) / nthreads.max(1);
        let results: Vec<(u64, u64, Vec<(Vec<&'static str>, String, Value)>)> = std::thread::scope(|sc| {
            let mut hs = Vec::new();
            for part_l in l_axis.chunks(chunk.max(1)) {
                let progress = progress.clone();
                let (s_axis, r_axis, part, listed) = (&s_axis, &r_axis, &part, &listed);
                let me = &*self;
                hs.push(sc.spawn(move || {
                    let mut triples = 0u64;
                    let mut missing = 0u64;
                    let mut out: Vec<(Vec<&'static str>, String, Value)> = Vec::new();
                    for (ltext, lclass) in part_l {
                        let lang = match Language::from_bytes(ltext.as_bytes()) {
                            Ok(l) => l,
                            Err(_) => {
                                out.push((vec!["C15", "C18"], "sweep-language-rejected".into(), json!({"language": ltext})));
                                continue;
                            }
                        };
                        if part == "dir" {
                            me.sweep_dir(lang, lclass, s_axis, r_axis, listed, &mut triples, &mut missing, &mut out, &progress);
                        } else {
                            me.sweep_lang(lang, lclass, s_axis, r_axis, &mut triples, &mut missing, &mut out, &progress);
                        }
                    }
                    (triples, missing, out)
                }));
            }
            hs.into_iter().map(|h| h.join().unwrap_or((0, 0, vec![(vec!["C01"], "sweep-thread-died".into(), json!({}))]))).collect()
        });
        for (t, m, out) in results {
            r.stat_n("sweep_triples", t);
            r.stat_n(if part == "dir" { "dir" } else { "likely" }, t);
            if m > 0 {
                r.stat_n("sweep_class_missing", m);
            }
            for (props, what, detail) in out {
                r.dis(&props, &what, detail);
            }
        }
    }

    #[cfg(feature = "likelysubtags")]
    #[allow(clippy::too_many_arguments)]
    fn sweep_lang(&self, lang: Language, lclass: &str, s_axis: &[(String, Option<Script>)], r_axis: &[(String, Option<Region>)],
                  triples: &mut u64, missing: &mut u64, out: &mut Vec<(Vec<&'static str>, String, Value)>, progress: &AtomicU64) {
        use unic_langid_impl::likelysubtags;
        // which scripts / regions have a class of their own for this language
        let own_s: BTreeSet<&str> = self.classes.keys().filter(|k| k.0 == lclass).map(|k| k.1.as_str()).collect();
        let own_r: BTreeSet<&str> = self.classes.keys().filter(|k| k.0 == lclass).map(|k| k.2.as_str()).collect();
        let s_cls: Vec<&str> = s_axis.iter().map(|(t, _)| if own_s.contains(t.as_str()) { t.as_str() } else { "$s" }).collect();
        let r_cls: Vec<&str> = r_axis.iter().map(|(t, _)| if own_r.contains(t.as_str()) { t.as_str() } else { "$r" }).collect();
        let mut row_cache: HashMap<(&str, &str), Option<&(Vec<Pat>, Vec<Pat>)>> = HashMap::new();
        for (si, (_, s)) in s_axis.iter().enumerate() {
            let row = guard(|| {
                let mut bad: Vec<(Vec<&'static str>, String, Value)> = Vec::new();
                let mut n = 0u64;
                let mut miss = 0u64;
                for (ri, (_, rg)) in r_axis.iter().enumerate() {
                    let key = (s_cls[si], r_cls[ri]);
                    let exp = *row_cache.entry(key).or_insert_with(|| self.classes.get(&(lclass.to_string(), key.0.to_string(), key.1.to_string())));
                    let exp = match exp {
                        Some(e) => e,
                        None => {
                            miss += 1;
                            continue;
                        }
                    };
                    let input: Triple = (lang, *s, *rg);
                    let mx = likelysubtags::maximize(lang, *s, *rg);
                    let mn = likelysubtags::minimize(lang, *s, *rg);
                    n += 1;
                    // the same questions again, straight away (see sweep_dir)
                    if likelysubtags::maximize(lang, *s, *rg) != mx && bad.len() < 5 {
                        bad.push((vec!["C06"], "sweep-maximize-second-call-differs".into(), json!({"triple": show_triple(&input)})));
                    }
                    if likelysubtags::minimize(lang, *s, *rg) != mn && bad.len() < 5 {
                        bad.push((vec!["C08"], "sweep-minimize-second-call-differs".into(), json!({"triple": show_triple(&input)})));
                    }
                    if !exp.0.iter().any(|p| fits(p, &input, &mx)) && bad.len() < 5 {
                        bad.push((vec!["C06"], "sweep-maximize-answer".into(), json!({"triple": show_triple(&input), "class": [lclass, key.0, key.1],
                            "allowed_patterns": exp.0.iter().map(|p| p.text.clone()).collect::<Vec<_>>(),
                            "observed": mx.map(|t| show_triple(&t))})));
                    }
                    if !exp.1.iter().any(|p| fits(p, &input, &mn)) && bad.len() < 5 {
                        bad.push((vec!["C08"], "sweep-minimize-answer".into(), json!({"triple": show_triple(&input), "class": [lclass, key.0, key.1],
                            "allowed_patterns": exp.1.iter().map(|p| p.text.clone()).collect::<Vec<_>>(),
                            "observed": mn.map(|t| show_triple(&t))})));
                    }
                }
                (n, miss, bad)
            });
            progress.fetch_add(1, Ordering::Relaxed);
            match row {
                Ok((n, miss, bad)) => {
                    *triples += n;
                    *missing += miss;
                    if out.len() < 200 {
                        out.extend(bad);
                    }
                }
                Err(at) => {
                    *triples += r_axis.len() as u64;   // the row was attempted; the panic is the finding
                    // find the triple: repeat the row call by call
                    let mut witness = String::new();
                    for (_, rg) in r_axis.iter() {
                        if guard(|| { let _ = likelysubtags::maximize(lang, *s, *rg); let _ = likelysubtags::minimize(lang, *s, *rg); }).is_err() {
                            witness = show_triple(&(lang, *s, *rg));
                            break;
                        }
                    }
                    if out.len() < 200 {
                        out.push((vec!["C01"], format!("panic@{}", short_at(&at)), json!({"triple": witness, "panic": at})));
                    }
                }
            }
        }
    }

    #[cfg(not(feature = "likelysubtags"))]
    #[allow(clippy::too_many_arguments)]
    fn sweep_lang(&self, _lang: Language, _lclass: &str, _s_axis: &[(String, Option<Script>)], _r_axis: &[(String, Option<Region>)],
                  _triples: &mut u64, _missing: &mut u64, _out: &mut Vec<(Vec<&'static str>, String, Value)>, _progress: &AtomicU64) {
    }

    #[allow(clippy::too_many_arguments)]
    fn sweep_dir(&self, lang: Language, lclass: &str, s_axis: &[(String, Option<Script>)], r_axis: &[(String, Option<Region>)],
                 listed: &BTreeSet<String>, triples: &mut u64, missing: &mut u64, out: &mut Vec<(Vec<&'static str>, String, Value)>, progress: &AtomicU64) {
        let on = cfg!(feature = "likelysubtags");
        for (stext, s) in s_axis.iter() {
            let scls = if stext.is_empty() { "" } else if listed.contains(stext) { stext.as_str() } else { "$s" };
            let exp = match self.dir.get(&(lclass.to_string(), scls.to_string())) {
                Some(e) => if on { &e.0 } else { &e.1 },
                None => {
                    *missing += r_axis.len() as u64;
                    continue;
                }
            };
            let row = guard(|| {
                let mut bad = Vec::new();
                let mut n = 0u64;
                let mut li = LanguageIdentifier::default();
                li.language = lang;
                li.script = *s;
                for (_, rg) in r_axis.iter() {
                    li.region = *rg;
                    let d = crate::dir::dir_name(li.character_direction());
                    // the same question again, straight away: a function has one answer (a cache filled by the first call,
                    // or left behind by an earlier identifier, would give the second call a different one)
                    let d_again = crate::dir::dir_name(li.character_direction());
                    n += 1;
                    if d_again != d && bad.len() < 5 {
                        bad.push((vec!["C14"], "sweep-direction-second-call-differs".to_string(), json!({"id": li.to_string(), "first": d, "second": d_again, "likelysubtags": on})));
                    }
                    if !exp.iter().any(|x| x == d) && bad.len() < 5 {
                        bad.push((vec!["C14"], "sweep-direction".to_string(), json!({"id": li.to_string(), "class": [lclass, scls], "likelysubtags": on,
                            "allowed": exp, "observed": d})));
                    }
                }
                (n, bad)
            });
            progress.fetch_add(1, Ordering::Relaxed);
            match row {
                Ok((n, bad)) => {
                    *triples += n;
                    if out.len() < 200 {
                        out.extend(bad.into_iter().map(|(p, w, d)| (p, w, d)));
                    }
                }
                Err(at) => {
                    *triples += r_axis.len() as u64;
                    if out.len() < 200 {
                        out.push((vec!["C01"], format!("panic@{}", short_at(&at)), json!({"language": lang.as_str(), "script": stext, "panic": at})));
                    }
                }
            }
        }
    }
}
