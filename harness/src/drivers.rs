//! impl -> spec: seeded drivers that exercise the real public API and log one ndjson event per
//! call, at its return (in a sequential library that is the linearisation point), with the full
//! projected abstract state.  The events are validated against Trace.tla by TLC.

use crate::ops;
use crate::proj::*;
use crate::rec::*;
use serde_json::{json, Value};
use std::io::Write;
use std::str::FromStr;
use unic_langid_impl::subtags::{Language, Region, Script, Variant};
use unic_langid_impl::LanguageIdentifier;
use unic_locale_impl::{ExtensionsMap, Locale};

pub struct Rng(u64);
impl Rng {
    pub fn new(seed: u64) -> Self {
        Rng(seed.wrapping_mul(0x9E3779B97F4A7C15) ^ 0xD1B54A32D192ED03)
    }
    pub fn next(&mut self) -> u64 {
        let mut x = self.0;
        x ^= x >> 12;
        x ^= x << 25;
        x ^= x >> 27;
        self.0 = x;
        x.wrapping_mul(0x2545F4914F6CDD1D)
    }
    pub fn below(&mut self, n: usize) -> usize {
        if n == 0 { 0 } else { (self.next() % n as u64) as usize }
    }
    pub fn chance(&mut self, num: u64, den: u64) -> bool {
        self.next() % den < num
    }
    pub fn pick<'a, T>(&mut self, xs: &'a [T]) -> &'a T {
        &xs[self.below(xs.len())]
    }
}

const LOWER: &[u8] = b"abcdefghijklmnopqrstuvwxyz";
const DIGIT: &[u8] = b"0123456789";
const ALNUM: &[u8] = b"abcdefghijklmnopqrstuvwxyz0123456789";

/// words the library's own sources mention (engine.source_dictionary, env VERIF_DICT): a word the code
/// treats specially is not in any class-based pool
fn dict() -> &'static Vec<Vec<u8>> {
    static D: std::sync::OnceLock<Vec<Vec<u8>>> = std::sync::OnceLock::new();
    D.get_or_init(|| {
        std::env::var("VERIF_DICT").ok()
            .and_then(|p| std::fs::read_to_string(p).ok())
            .and_then(|t| serde_json::from_str::<Vec<Vec<u8>>>(&t).ok())
            .unwrap_or_default()
    })
}
/// with probability 1/8 replace a generated token by a dictionary word
fn dictify(r: &mut Rng, v: Vec<u8>) -> Vec<u8> {
    let d = dict();
    if !d.is_empty() && r.chance(1, 8) { d[r.below(d.len())].clone() } else { v }
}

fn word(r: &mut Rng, set: &[u8], lo: usize, hi: usize) -> Vec<u8> {
    let n = lo + r.below(hi - lo + 1);
    (0..n).map(|_| *r.pick(set)).collect()
}

fn gen_lang(r: &mut Rng) -> Vec<u8> {
    const POOL: &[&str] = &["en", "de", "und", "zh", "sr", "ar", "he", "abcde", "abcdefgh", "fil", "uz", "pa"];
    if r.chance(3, 4) { r.pick(POOL).as_bytes().to_vec() } else {
        let n = *r.pick(&[2usize, 3, 5, 6, 7, 8]);
        word(r, LOWER, n, n)
    }
}
fn gen_script(r: &mut Rng) -> Vec<u8> {
    const POOL: &[&str] = &["Latn", "Cyrl", "Arab", "Hans", "Hant", "Mong", "Hebr"];
    if r.chance(3, 4) { r.pick(POOL).as_bytes().to_vec() } else { word(r, LOWER, 4, 4) }
}
fn gen_region(r: &mut Rng) -> Vec<u8> {
    const POOL: &[&str] = &["US", "GB", "419", "001", "RS", "CN", "TW", "PK", "AF"];
    if r.chance(2, 3) { r.pick(POOL).as_bytes().to_vec() } else if r.chance(1, 2) { word(r, LOWER, 2, 2) } else { word(r, DIGIT, 3, 3) }
}
fn gen_variant(r: &mut Rng) -> Vec<u8> {
    const POOL: &[&str] = &["valencia", "1996", "macos", "posix", "1abc", "fonipa"];
    if r.chance(1, 2) { r.pick(POOL).as_bytes().to_vec() } else if r.chance(1, 3) {
        let mut v = word(r, DIGIT, 1, 1);
        v.extend(word(r, ALNUM, 3, 3));
        v
    } else { word(r, ALNUM, 5, 8) }
}
fn gen_li_tokens(r: &mut Rng) -> Vec<Vec<u8>> {
    let mut t = vec![gen_lang(r)];
    if r.chance(1, 2) { t.push(gen_script(r)); }
    if r.chance(1, 2) { t.push(gen_region(r)); }
    for _ in 0..r.below(3) { let v = gen_variant(r); t.push(dictify(r, v)); }
    t
}
fn gen_ukey(r: &mut Rng) -> Vec<u8> {
    const POOL: &[&str] = &["ca", "hc", "nu", "co", "1a", "kf"];
    if r.chance(3, 4) { r.pick(POOL).as_bytes().to_vec() } else {
        let mut k = word(r, ALNUM, 1, 1);
        k.extend(word(r, LOWER, 1, 1));
        k
    }
}
fn gen_tkey(r: &mut Rng) -> Vec<u8> {
    let mut k = word(r, LOWER, 1, 1);
    k.extend(word(r, DIGIT, 1, 1));
    k
}
fn gen_type(r: &mut Rng) -> Vec<u8> {
    const POOL: &[&str] = &["buddhist", "gregory", "h12", "true", "latn", "phonebk", "hybrid", "islamic", "civil"];
    let v = if r.chance(2, 3) { r.pick(POOL).as_bytes().to_vec() } else { word(r, ALNUM, 3, 8) };
    dictify(r, v)
}

/// a well-formed locale as tokens (distinct keys, no empty bodies), before case/separator noise
pub fn gen_locale_tokens(r: &mut Rng) -> Vec<Vec<u8>> {
    let mut t = gen_li_tokens(r);
    let mut exts: Vec<Vec<Vec<u8>>> = Vec::new();
    // one input in six is "rich": 4..10 members per container instead of 0..3
    let rich = r.chance(1, 6);
    let cnt = |r: &mut Rng, small: usize| if rich { 4 + r.below(7) } else { r.below(small) };
    if rich {
        let first = t.len();
        for _ in 0..cnt(r, 0) { let v = gen_variant(r); t.push(v); }
        // repeats of earlier variants, anywhere after them (X, Y, X patterns)
        for _ in 0..r.below(4) { if t.len() > first { let v = t[first + r.below(t.len() - first)].clone(); t.push(v); } }
    }
    if r.chance(1, 2) {
        let mut u = vec![b"u".to_vec()];
        for _ in 0..cnt(r, 3) { u.push(word(r, ALNUM, 3, 8)); }
        if rich { for _ in 0..r.below(4) { if u.len() > 1 { let v = u[1 + r.below(u.len() - 1)].clone(); u.push(v); } } }
        let mut keys: Vec<Vec<u8>> = Vec::new();
        for _ in 0..cnt(r, 4) {
            let k = gen_ukey(r);
            if keys.contains(&k) { continue; }
            keys.push(k.clone());
            u.push(k);
            for _ in 0..(if rich { r.below(5) } else { r.below(3) }) { u.push(gen_type(r)); }
        }
        if u.len() > 1 { exts.push(u); }
    }
    if r.chance(1, 2) {
        let mut tt = vec![b"t".to_vec()];
        if r.chance(2, 3) { tt.extend(gen_li_tokens(r)); }
        let mut keys: Vec<Vec<u8>> = Vec::new();
        for _ in 0..cnt(r, 3) {
            let k = gen_tkey(r);
            if keys.contains(&k) { continue; }
            keys.push(k.clone());
            tt.push(k);
            for _ in 0..(1 + if rich { r.below(4) } else { r.below(2) }) { tt.push(gen_type(r)); }
        }
        if tt.len() > 1 { exts.push(tt); }
    }
    if exts.len() == 2 && r.chance(1, 2) { exts.swap(0, 1); }
    for e in exts { t.extend(e); }
    if r.chance(1, 4) {
        t.push(b"x".to_vec());
        for _ in 0..(1 + cnt(r, 3)) { t.push(word(r, ALNUM, 1, 8)); }
    }
    t
}

pub fn noisy_join(r: &mut Rng, toks: &[Vec<u8>]) -> Vec<u8> {
    let mode = r.below(4);
    let mut out = Vec::new();
    for (i, t) in toks.iter().enumerate() {
        if i > 0 { out.push(if mode >= 2 && r.chance(1, 3) { b'_' } else { b'-' }); }
        for &c in t {
            let c2 = match mode {
                1 => c.to_ascii_uppercase(),
                2 | 3 if r.chance(1, 3) => if c.is_ascii_lowercase() { c.to_ascii_uppercase() } else { c.to_ascii_lowercase() },
                _ => c,
            };
            out.push(c2);
        }
    }
    out
}

pub fn mutate(r: &mut Rng, mut v: Vec<u8>) -> Vec<u8> {
    const ODD: &[u8] = &[0, b' ', b'.', b'*', b'-', b'_', b'$', 0x7f, 0x80, 0xc3, 0xff, b'@', b'[', b'`', b'{', b'/', b':'];
    for _ in 0..(1 + r.below(3)) {
        let pos = r.below(v.len() + 1);
        match r.below(6) {
            0 if !v.is_empty() => { let p = pos.min(v.len() - 1); v[p] = if r.chance(1, 2) { *r.pick(ODD) } else { *r.pick(ALNUM) }; }
            1 => v.insert(pos, if r.chance(1, 2) { *r.pick(ODD) } else { *r.pick(ALNUM) }),
            2 if !v.is_empty() => { v.remove(pos.min(v.len() - 1)); }
            3 => { v.truncate(pos); }
            4 => { let extra: Vec<u8> = b"-u-ca-buddhist"[..r.below(14) + 1].to_vec(); v.splice(pos..pos, extra); }
            _ => { v.insert(pos, b'-'); }
        }
    }
    v
}

fn out_of<T, E: std::fmt::Debug>(r: &Result<Result<T, E>, String>) -> Value {
    match r {
        Ok(Ok(_)) => json!({"k":"ok"}),
        Ok(Err(_)) => json!({"k":"err"}),
        Err(at) => json!({"k":"panic","at": short_at(at)}),
    }
}

fn li_err_kind(e: &unic_langid_impl::LanguageIdentifierError) -> &'static str {
    use unic_langid_impl::parser::ParserError as P;
    use unic_langid_impl::LanguageIdentifierError as E;
    match e {
        E::ParserError(P::InvalidLanguage) => "InvalidLanguage",
        E::ParserError(P::InvalidSubtag) => "InvalidSubtag",
        E::Unknown => "Unknown",
    }
}

fn default_li() -> Value {
    proj_li(&LanguageIdentifier::default())
}

pub struct Log {
    f: std::io::BufWriter<std::fs::File>,
    pub n: u64,
    pub by_op: std::collections::BTreeMap<String, u64>,
    pending: Option<std::fs::File>,
}
impl Log {
    pub fn new(path: &str) -> Self {
        let pending = std::fs::File::create(format!("{}.pending", path)).ok();
        Log { f: std::io::BufWriter::new(std::fs::File::create(path).expect("trace file")), n: 0, by_op: Default::default(), pending }
    }
    /// what is about to be called: survives an abort / stack overflow of the driver process
    pub fn about_to(&mut self, what: &str, input: &[u8]) {
        if let Some(f) = self.pending.as_mut() {
            use std::io::Seek;
            let _ = f.seek(std::io::SeekFrom::Start(0));
            let _ = f.set_len(0);
            let _ = f.write_all(json!({"call": what, "input": show(input), "input_bytes": bytes(input)}).to_string().as_bytes());
        }
    }
    pub fn ev(&mut self, v: Value) {
        *self.by_op.entry(v["op"].as_str().unwrap_or("?").to_string()).or_insert(0) += 1;
        let _ = writeln!(self.f, "{}", v);
        self.n += 1;
    }
}

pub fn ev_li_parse(log: &mut Log, input: &[u8]) {
    log.about_to("LanguageIdentifier::from_bytes", input);
    let r = guard(|| LanguageIdentifier::from_bytes(input));
    let (out, st, ser) = match &r {
        Ok(Ok(v)) => (json!({"k":"ok"}), proj_li(v), b(&v.to_string())),
        Ok(Err(e)) => (json!({"k":"err","err": li_err_kind(e)}), default_li(), json!([])),
        Err(at) => (json!({"k":"panic","at": short_at(at)}), default_li(), json!([])),
    };
    // canonicalize() and FromStr are the same function seen through other doors
    let canon = match guard(|| unic_langid_impl::canonicalize(input)) {
        Ok(Ok(c)) => json!({"k":"ok","text": b(&c)}),
        Ok(Err(_)) => json!({"k":"err","text": []}),
        Err(_) => json!({"k":"panic","text": []}),
    };
    let fromstr_same = match std::str::from_utf8(input) {
        Ok(s) => match (guard(|| LanguageIdentifier::from_str(s)), &r) {
            (Ok(Ok(a)), Ok(Ok(b2))) => &a == b2,
            (Ok(Err(a)), Ok(Err(b2))) => &a == b2,
            _ => false,
        },
        Err(_) => true,
    };
    // C13: what LanguageIdentifier accepts, Locale accepts with an identical id, no extensions and the same text
    let as_locale = match &r {
        Ok(Ok(v)) => match guard(|| Locale::from_bytes(input)) {
            Ok(Ok(l)) => if &l.id == v && l.extensions.is_empty() && l.to_string() == v.to_string() { "same" } else { "differs" },
            Ok(Err(_)) => "rejected",
            Err(_) => "panic",
        },
        _ => "na",
    };
    // the same call once more, right away: a pure function gives the same answer (a memo or scratch buffer would show)
    let again = match (guard(|| LanguageIdentifier::from_bytes(input)), &r) {
        (Ok(Ok(a)), Ok(Ok(b2))) => &a == b2 && a.to_string() == b2.to_string(),
        (Ok(Err(a)), Ok(Err(b2))) => &a == b2,
        (Err(_), Err(_)) => true,
        _ => false,
    };
    log.ev(json!({"op":"li_parse","in": bytes(input),"out": out,"st": st,"ser": ser,"canon": canon,"fromstr_same": fromstr_same,
                  "as_locale": as_locale, "again": again}));
}

pub fn ev_loc_parse(log: &mut Log, input: &[u8]) -> Option<Locale> {
    log.about_to("Locale::from_bytes", input);
    let r = guard(|| Locale::from_bytes(input));
    let out = out_of(&r);
    let (st, ser) = match &r {
        Ok(Ok(v)) => (proj_loc(v), b(&v.to_string())),
        _ => (proj_loc(&Locale::default()), json!([])),
    };
    let canon = match guard(|| unic_locale_impl::canonicalize(input)) {
        Ok(Ok(c)) => json!({"k":"ok","text": b(&c)}),
        Ok(Err(_)) => json!({"k":"err","text": []}),
        Err(_) => json!({"k":"panic","text": []}),
    };
    let fromstr_same = match std::str::from_utf8(input) {
        Ok(s) => match (guard(|| Locale::from_str(s)), &r) {
            (Ok(Ok(a)), Ok(Ok(b2))) => &a == b2,
            (Ok(Err(_)), Ok(Err(_))) => true,
            _ => false,
        },
        Err(_) => true,
    };
    let again = match (guard(|| Locale::from_bytes(input)), &r) {
        (Ok(Ok(a)), Ok(Ok(b2))) => &a == b2 && a.to_string() == b2.to_string(),
        (Ok(Err(_)), Ok(Err(_))) => true,
        (Err(_), Err(_)) => true,
        _ => false,
    };
    log.ev(json!({"op":"loc_parse","in": bytes(input),"out": out,"st": st,"ser": ser,"canon": canon,"fromstr_same": fromstr_same, "again": again}));
    match r { Ok(Ok(v)) => Some(v), _ => None }
}

pub fn ev_ext_parse(log: &mut Log, input: &[u8]) {
    log.about_to("ExtensionsMap::from_bytes", input);
    let r = guard(|| ExtensionsMap::from_bytes(input));
    let out = out_of(&r);
    let (st, ser) = match &r {
        Ok(Ok(e)) => (proj_ext(default_li(), e), b(&e.to_string())),
        _ => (proj_loc(&Locale::default()), json!([])),
    };
    log.ev(json!({"op":"ext_parse","in": bytes(input),"out": out,"st": st,"ser": ser}));
}

fn ev_sub(log: &mut Log, kind: &str, input: &[u8]) {
    log.about_to(kind, input);
    macro_rules! one {
        ($ty:ty, $raw:expr) => {{
            let r = guard(|| <$ty>::from_bytes(input));
            let out = out_of(&r);
            let (text, raw) = match &r {
                Ok(Ok(v)) => (b(v.as_str()), $raw(v)),
                _ => (json!([]), json!([])),
            };
            log.ev(json!({"op":"sub","kind": kind,"in": bytes(input),"out": out,"text": text,"raw": raw}));
        }};
    }
    match kind {
        "language" => one!(Language, |v: &Language| { let x: Option<u64> = (*v).into(); x.map(|x| bytes(&x.to_le_bytes())).unwrap_or(json!([])) }),
        "script" => one!(Script, |v: &Script| { let x: u32 = (*v).into(); bytes(&x.to_le_bytes()) }),
        "region" => one!(Region, |v: &Region| { let x: u32 = (*v).into(); bytes(&x.to_le_bytes()) }),
        _ => one!(Variant, |v: &Variant| { let x: u64 = (*v).into(); bytes(&x.to_le_bytes()) }),
    }
}

fn hash_of<T: std::hash::Hash>(t: &T) -> u64 {
    use std::hash::Hasher;
    let mut h = std::collections::hash_map::DefaultHasher::new();
    t.hash(&mut h);
    h.finish()
}
fn ord_name(o: std::cmp::Ordering) -> &'static str {
    match o { std::cmp::Ordering::Less => "lt", std::cmp::Ordering::Equal => "eq", std::cmp::Ordering::Greater => "gt" }
}

fn ev_cmp(log: &mut Log, a: &Locale, bb: &Locale) {
    let r = guard(|| (a == bb, a.cmp(bb), bb.cmp(a), a.id.cmp(&bb.id), hash_of(a) == hash_of(bb), a.to_string() == bb.to_string(),
                      a.id == bb.id.to_string().as_str(), a.id == bb.id, hash_of(&a.id) == hash_of(&bb.id),
                      a.extensions == bb.extensions, a.extensions.cmp(&bb.extensions)));
    match r {
        Ok((eq, ord, rev, lio, heq, seq, li_eq_str, li_eq, li_heq, ext_eq, ext_ord)) => log.ev(json!({"op":"cmp","a": proj_loc(a),"b": proj_loc(bb),"eq": eq,"ord": ord_name(ord),
            "rev": ord_name(rev),"li_ord": ord_name(lio),"hash_eq": heq,"str_eq": seq,
            "li_eq_str": li_eq_str,"li_eq": li_eq,"li_hash_eq": li_heq,"ext_eq": ext_eq,"ext_ord": ord_name(ext_ord)})),
        Err(at) => log.ev(json!({"op":"li_parse","in": [], "out": {"k":"panic","at": short_at(&at)}, "st": default_li(), "ser": []})),
    }
}

fn ev_match(log: &mut Log, a: &Locale, bb: &Locale, ra: bool, rb: bool) {
    if let Ok((ml, mi)) = guard(|| (a.matches(bb, ra, rb), a.id.matches(&bb.id, ra, rb))) {
        log.ev(json!({"op":"match","a": proj_loc(a),"b": proj_loc(bb),"ra": ra,"rb": rb,"loc": ml,"li": mi}));
    }
}

fn ev_value(log: &mut Log, loc: &Locale) {
    let ser = loc.to_string();
    // rejected calls first: what a failed call leaves behind must not reach the round trip judged here (replay::poison_calls)
    let _ = guard(crate::replay::poison_calls);
    let reparse_ok = matches!(guard(|| Locale::from_bytes(ser.as_bytes())), Ok(Ok(ref l2)) if l2 == loc && l2.to_string() == ser);
    let es = loc.extensions.to_string();
    let ext_ok = matches!(guard(|| ExtensionsMap::from_bytes(es.as_bytes())), Ok(Ok(ref e2)) if *e2 == loc.extensions);
    let parts_ok = matches!(guard(|| {
        let (l, s, r, v, e) = loc.clone().into_parts();
        ExtensionsMap::from_str(&e).map(|em| Locale::from_parts(l, s, r, &v, Some(em)))
    }), Ok(Ok(ref l3)) if l3 == loc);
    // two values with the same canonical text must be equal, hash equally and compare Equal (C12)
    let same_text_equal = match guard(|| Locale::from_bytes(ser.as_bytes())) {
        Ok(Ok(ref l2)) if l2.to_string() == ser => l2 == loc && hash_of(l2) == hash_of(loc) && l2.cmp(loc) == std::cmp::Ordering::Equal
            && l2.id == loc.id && hash_of(&l2.id) == hash_of(&loc.id) && l2.extensions == loc.extensions,
        _ => true,
    };
    // == &str holds for the canonical text only: no proper prefix, no extension of it
    let ids = loc.id.to_string();
    let foreign_str_eq = matches!(guard(|| {
        (0..ids.len()).any(|n| ids.is_char_boundary(n) && loc.id == &ids[..n])
            || loc.id == format!("{}-", ids).as_str() || loc.id == format!("{}-x", ids).as_str() || loc.id == ids.to_ascii_uppercase().as_str() && ids.to_ascii_uppercase() != ids
    }), Ok(true));
    // ... and it does hold for the canonical text itself, at any length: for a long variant list every prefix
    // of the list is tried, so that every text length and every alignment of a subtag boundary occurs
    let own_str_ne = !matches!(guard(|| {
        let mut ok = loc.id == ids.as_str();
        let vs: Vec<Variant> = loc.id.variants().cloned().collect();
        if vs.len() > 12 {
            let mut li = loc.id.clone();
            let mut probe = |sel: Vec<Variant>| {
                li.set_variants(&sel);
                let t = li.to_string();
                ok = ok && li == t.as_str() && matches!(LanguageIdentifier::from_bytes(t.as_bytes()), Ok(ref back) if *back == li && hash_of(back) == hash_of(&li));
            };
            for k in 0..vs.len() { probe(vs[..k].to_vec()); }
            // leave out one or two early members: every later subtag boundary moves by 5..18 bytes, so that boundaries
            // fall on every byte offset (buffer sizes, 2^k limits)
            for j in 0..vs.len().min(24) {
                probe(vs.iter().enumerate().filter(|(i, _)| *i != j).map(|(_, v)| *v).collect());
                probe(vs.iter().enumerate().filter(|(i, _)| *i != j && *i != j + 1).map(|(_, v)| *v).collect());
            }
        }
        ok
    }), Ok(true));
    log.ev(json!({"op":"value","st": proj_loc(loc),"ser": b(&ser),"reparse_ok": reparse_ok,"ext_reparse_ok": ext_ok,"parts_ok": parts_ok,
                  "same_text_equal": same_text_equal, "foreign_str_eq": foreign_str_eq || own_str_ne}));
}

// ---- argument pools for histories: valid, boundary, invalid ------------------------------------
fn arg_sub(r: &mut Rng, valid: &[&str], invalid: &[&str]) -> Vec<u8> {
    let mut v = if r.chance(4, 5) { r.pick(valid).as_bytes().to_vec() } else { r.pick(invalid).as_bytes().to_vec() };
    v = dictify(r, v);
    if r.chance(1, 4) { v = v.to_ascii_uppercase(); }
    if r.chance(1, 25) { v = mutate(r, v); }
    if r.chance(1, 120) {
        // an over-long argument whose length is a valid length plus a multiple of 256
        let l = *r.pick(&[1usize, 2, 3, 5, 8]) + *r.pick(&[256usize, 512]);
        v = (0..l).map(|_| *r.pick(ALNUM)).collect();
    }
    v
}

fn gen_op(r: &mut Rng, likely: bool) -> Value {
    const UKEYS: &[&str] = &["ca", "hc", "nu", "1a", "co"];
    const BADKEYS: &[&str] = &["c", "cal", "c1", "", "c-", "\u{e9}a"];
    const TKEYS: &[&str] = &["h0", "k0", "m0", "t9"];
    const BADT: &[&str] = &["0h", "hh", "h", "", "h00"];
    const TYPES: &[&str] = &["buddhist", "gregory", "h12", "true", "islamic", "civil", "abc", "abcdefgh"];
    const BADTYPES: &[&str] = &["ab", "abcdefghi", "a*c", "", "a-b"];
    const ATTRS: &[&str] = &["foo", "bar", "abc", "abcdefgh", "zzz", "true"];
    const TAGS: &[&str] = &["a", "b", "foo", "abcdefgh", "1", "x", "u"];
    const BADTAGS: &[&str] = &["", "abcdefghi", "a*", "a-b"];
    const LANGS: &[&str] = &["en", "de", "und", "zh", "sr", "ar", "abcde", "abcdefgh"];
    const BADLANGS: &[&str] = &["e", "abcd", "abcdefghi", "e1", ""];
    const SCRIPTS: &[&str] = &["Latn", "Cyrl", "Arab", "Hant"];
    const BADSCRIPTS: &[&str] = &["Lat", "Latin", "L4tn", ""];
    const REGIONS: &[&str] = &["US", "RS", "419", "TW", "PK"];
    const BADREGIONS: &[&str] = &["U", "USA", "41", "4190", "u1"];
    const VARIANTS: &[&str] = &["valencia", "1996", "macos", "1abc", "abcde"];
    const BADVARIANTS: &[&str] = &["abcd", "abc", "abcdefghi", "1.ab", "x"];
    const TLANGS: &[&str] = &["en", "en-US", "de-Latn-AT-1996", "und", "sr-Cyrl", "zh-hant-tw", "abcdefgh-Latn-US", "abcde", "fil-419-1abc"];
    const BADTLANGS: &[&str] = &["x", "en-", "", "en-u-ca", "e"];
    let vals = |r: &mut Rng, good: &[&str], bad: &[&str]| -> Vec<Value> {
        (0..r.below(3)).map(|_| { let pool = if r.chance(1, 6) { bad } else { good }; bytes(&arg_sub(r, good, pool)) }).collect()
    };
    let n = if likely { 30 } else { 28 };
    match r.below(n) {
        0 => json!({"op":"set_language","s": bytes(&arg_sub(r, LANGS, BADLANGS)),"key":[],"vals":[]}),
        1 => json!({"op":"clear_language","s":[],"key":[],"vals":[]}),
        2 => json!({"op":"set_script","s": bytes(&arg_sub(r, SCRIPTS, BADSCRIPTS)),"key":[],"vals":[]}),
        3 => json!({"op":"clear_script","s":[],"key":[],"vals":[]}),
        4 => json!({"op":"set_region","s": bytes(&arg_sub(r, REGIONS, BADREGIONS)),"key":[],"vals":[]}),
        5 => json!({"op":"clear_region","s":[],"key":[],"vals":[]}),
        6 => json!({"op":"set_variants","s":[],"key":[],"vals": vals(r, VARIANTS, BADVARIANTS)}),
        7 => json!({"op":"clear_variants","s":[],"key":[],"vals":[]}),
        8 => json!({"op":"has_variant","s": bytes(&arg_sub(r, VARIANTS, BADVARIANTS)),"key":[],"vals":[]}),
        9 | 10 => json!({"op":"set_keyword","s":[],"key": bytes(&arg_sub(r, UKEYS, BADKEYS)),"vals": vals(r, TYPES, BADTYPES)}),
        11 => json!({"op":"remove_keyword","s":[],"key": bytes(&arg_sub(r, UKEYS, BADKEYS)),"vals":[]}),
        12 => json!({"op":"keyword","s":[],"key": bytes(&arg_sub(r, UKEYS, BADKEYS)),"vals":[]}),
        13 => json!({"op": if r.chance(1, 8) {"clear_keywords"} else {"clear_attributes"},"s":[],"key":[],"vals":[]}),
        14 | 15 => json!({"op":"set_attribute","s": bytes(&arg_sub(r, ATTRS, BADTYPES)),"key":[],"vals":[]}),
        16 => json!({"op":"remove_attribute","s": bytes(&arg_sub(r, ATTRS, BADTYPES)),"key":[],"vals":[]}),
        17 => json!({"op":"has_attribute","s": bytes(&arg_sub(r, ATTRS, BADTYPES)),"key":[],"vals":[]}),
        18 => json!({"op":"set_tlang","s": bytes(&arg_sub(r, TLANGS, BADTLANGS)),"key":[],"vals":[]}),
        19 => json!({"op": if r.chance(1, 2) {"clear_tlang"} else {"clear_tfields"},"s":[],"key":[],"vals":[]}),
        20 | 21 => json!({"op":"set_tfield","s":[],"key": bytes(&arg_sub(r, TKEYS, BADT)),"vals": vals(r, TYPES, BADTYPES)}),
        22 => json!({"op":"remove_tfield","s":[],"key": bytes(&arg_sub(r, TKEYS, BADT)),"vals":[]}),
        23 => json!({"op":"tfield","s":[],"key": bytes(&arg_sub(r, TKEYS, BADT)),"vals":[]}),
        24 | 25 => json!({"op":"add_tag","s": bytes(&arg_sub(r, TAGS, BADTAGS)),"key":[],"vals":[]}),
        26 => json!({"op": if r.chance(1, 6) {"clear_tags"} else {"remove_tag"},"s": bytes(&arg_sub(r, TAGS, BADTAGS)),"key":[],"vals":[]}),
        27 => json!({"op": if r.chance(1, 2) {"has_tag"} else {"reparse"},"s": bytes(&arg_sub(r, TAGS, BADTAGS)),"key":[],"vals":[]}),
        28 => json!({"op":"maximize","s":[],"key":[],"vals":[]}),
        _ => json!({"op":"minimize","s":[],"key":[],"vals":[]}),
    }
}

/// long inputs: hundreds of subtags of one kind (counters, capacities, quadratic loops, recursion depth)
fn gen_long(r: &mut Rng, kind: usize) -> Vec<u8> {
    let n = 200 + r.below(140);
    let uniq = |r: &mut Rng, i: usize, digit_first: bool| -> Vec<u8> {
        // distinct 5..8-character subtags; a few repeats on purpose
        let k = if r.chance(1, 10) { i / 2 } else { i };
        let mut v = format!("{}{:04}", if digit_first { "9" } else { "v" }, k).into_bytes();
        if r.chance(1, 3) { v.extend(word(r, LOWER, 1, 3)); }
        v
    };
    let mut toks: Vec<Vec<u8>> = vec![b"en".to_vec()];
    if kind == 6 {
        // many thousands of consecutive separators (recursion per empty subtag, quadratic rescans)
        let run = *r.pick(&[40_000usize, 60_000, 120_000]);
        let mut v = b"en".to_vec();
        if r.chance(1, 2) { v.extend_from_slice(b"-u-foo"); }
        v.extend(std::iter::repeat(if r.chance(1, 2) { b'-' } else { b'_' }).take(run));
        if r.chance(1, 2) { v.extend_from_slice(b"x-a"); }
        return v;
    }
    if kind >= 7 {
        // one subtag whose length is a valid length plus a multiple of 256 / 65536 (length counters that wrap)
        let base = *r.pick(&[1usize, 2, 3, 4, 5, 8, 9]);
        let l = base + *r.pick(&[256usize, 256, 512, 65_536]);
        let long: Vec<u8> = (0..l).map(|_| *r.pick(ALNUM)).collect();
        let mut toks: Vec<Vec<u8>> = match r.below(6) {
            0 => vec![long],
            1 => vec![b"en".to_vec(), long],
            2 => vec![b"en".to_vec(), b"u".to_vec(), long],
            3 => vec![b"en".to_vec(), b"u".to_vec(), b"ca".to_vec(), long],
            4 => vec![b"en".to_vec(), b"t".to_vec(), b"h0".to_vec(), long],
            _ => vec![b"en".to_vec(), b"x".to_vec(), long],
        };
        if r.chance(1, 3) { toks.push(b"foo".to_vec()); }
        return noisy_join(r, &toks);
    }
    match kind {
        0 => { for i in 0..n { let df = r.chance(1, 2); let v = uniq(r, i, df); toks.push(v); } }
        1 => { toks.push(b"u".to_vec()); for i in 0..n { let v = uniq(r, i, false); toks.push(v); } }
        2 => { toks.push(b"u".to_vec()); toks.push(b"ca".to_vec()); for i in 0..n { let v = uniq(r, i, false); toks.push(v); } }
        3 => { toks.push(b"u".to_vec()); for i in 0..n { toks.push(vec![b'a' + (i % 26) as u8, b'a' + ((i / 26) % 26) as u8]); let v = uniq(r, i, false); toks.push(v); } }
        4 => { toks.push(b"t".to_vec()); toks.push(b"h0".to_vec()); for i in 0..n { let v = uniq(r, i, false); toks.push(v); } }
        _ => { toks.push(b"x".to_vec()); for i in 0..n { let v = uniq(r, i, false); toks.push(v); } }
    }
    noisy_join(r, &toks)
}

/// only the long inputs (run with an unoptimised build as well: recursion that an optimiser turns into a loop
/// still overflows the stack in a debug build)
fn drive_deep(r: &mut Rng, n: usize, log: &mut Log) {
    for i in 0..n {
        let input = gen_long(r, i % 9);
        ev_li_parse(log, &input);
        ev_loc_parse(log, &input);
        if let Some(p) = input.iter().position(|c| *c == b'-' || *c == b'_') {
            ev_ext_parse(log, &input[p..]);
        }
        if i % 9 >= 7 {
            // the same over-long subtag as an argument of the getters and setters
            let tok: Vec<u8> = input.split(|c| *c == b'-' || *c == b'_').max_by_key(|t| t.len()).unwrap_or(&[]).to_vec();
            let mut loc = Locale::default();
            log.ev(json!({"op":"start","in": [],"out":{"k":"ok"},"st": proj_loc(&loc)}));
            for op in [json!({"op":"set_attribute","s": bytes(&tok),"key":[],"vals":[]}), json!({"op":"has_attribute","s": bytes(&tok),"key":[],"vals":[]}),
                       json!({"op":"set_keyword","s":[],"key": bytes(b"ca"),"vals":[bytes(&tok)]}), json!({"op":"set_tfield","s":[],"key": bytes(b"h0"),"vals":[bytes(&tok)]}),
                       json!({"op":"add_tag","s": bytes(&tok),"key":[],"vals":[]}), json!({"op":"set_variants","s":[],"key":[],"vals":[bytes(&tok)]}),
                       json!({"op":"set_tlang","s": bytes(&tok),"key":[],"vals":[]}), json!({"op":"set_language","s": bytes(&tok),"key":[],"vals":[]})] {
                log.about_to(&format!("op {} (argument of {} bytes)", op["op"], tok.len()), b"");
                let res = guard(|| ops::apply(&mut loc, &op));
                let out = match res { Ok(x) => x, Err(at) => json!({"k":"panic","at": short_at(&at)}) };
                log.ev(json!({"op":"op","o": op,"out": out,"st": proj_loc(&loc),"ser": b(&loc.to_string()),"empties": empties(&loc.extensions)}));
            }
        }
    }
}

fn drive_parse(r: &mut Rng, n: usize, log: &mut Log) {
    // a handful of long inputs per run (each is one event; validation cost grows with length)
    // every kind of long input, once per run (9 kinds)
    for kind in 0..9usize.min(n / 100) {
        let input = gen_long(r, kind);
        ev_li_parse(log, &input);
        // the value-level obligations (round trips, == / hash / cmp, == &str) on the long value too
        if let Some(l) = ev_loc_parse(log, &input) {
            log.ev(json!({"op":"start","in": bytes(&input),"out":{"k":"ok"},"st": proj_loc(&l)}));
            ev_value(log, &l);
        }
    }
    for _ in 0..n {
        let toks = gen_locale_tokens(r);
        let mut input = noisy_join(r, &toks);
        match r.below(10) {
            0..=3 => {}
            4..=7 => input = mutate(r, input),
            8 => input = (0..r.below(12)).map(|_| (r.next() & 0xff) as u8).collect(),
            _ => { let li = gen_li_tokens(r); input = noisy_join(r, &li); if r.chance(1, 2) { input = mutate(r, input); } }
        }
        ev_li_parse(log, &input);
        ev_loc_parse(log, &input);
        // a near neighbour of the input, straight after it: whatever the library remembers of the last call (a memo of
        // recent inputs keyed by a prefix / a padded buffer, a scratch buffer) must not leak into this one
        if r.chance(1, 3) {
            let mut nb = input.clone();
            match r.below(7) {
                0 => nb.push(0),
                1 => nb.extend_from_slice(&[0, 0, 0]),
                2 => nb.push(b' '),
                3 => { nb.pop(); }
                4 => nb.insert(0, 0),
                5 => nb.push(if r.chance(1, 2) { b'-' } else { b'_' }),
                _ => { if let Some(l) = nb.last_mut() { *l = 0; } }
            }
            ev_li_parse(log, &nb);
            ev_loc_parse(log, &nb);
        }
        // the extension part on its own, through ExtensionsMap::from_bytes
        if let Some(p) = input.windows(3).position(|w| (w[0] == b'-' || w[0] == b'_') && (w[2] == b'-' || w[2] == b'_')) {
            let start = if r.chance(1, 2) { p } else { p + 1 };
            ev_ext_parse(log, &input[start..]);
        }
    }
}

fn ev_und(log: &mut Log) {
    use std::convert::TryFrom;
    let res = guard(|| {
        let d = Language::default();
        let mut c = Language::from_bytes(b"en").unwrap();
        let en_empty = c.is_empty();
        c.clear();
        let n = Language::try_from(None::<&str>).unwrap();
        let p = Language::from_bytes(b"UND").unwrap();
        let s = Language::try_from(Some("EN")).unwrap();
        json!({"op":"und","default": b(d.as_str()),"cleared": b(c.as_str()),"try_none": b(n.as_str()),"parsed_und": b(p.as_str()),
               "default_empty": d.is_empty(),"cleared_empty": c.is_empty(),"try_none_empty": n.is_empty(),"parsed_und_empty": p.is_empty(),
               "en_empty": en_empty,"try_some": b(s.as_str()),
               "all_equal": d == c && c == n && n == p && d.to_string() == "und" && d == "und" && LanguageIdentifier::default().language == d})
    });
    match res {
        Ok(v) => log.ev(v),
        Err(at) => log.ev(json!({"op":"li_parse","in": [],"out": {"k":"panic","at": short_at(&at)},"st": default_li(),"ser": []})),
    }
}

fn ev_ext_types(log: &mut Log) {
    use unic_locale_impl::ExtensionType;
    for byte in 0u16..256 {
        let bt = byte as u8;
        let (out, ch) = match guard(|| ExtensionType::from_byte(bt)) {
            Ok(Ok(ExtensionType::Unicode)) => ("u", 0u32),
            Ok(Ok(ExtensionType::Transform)) => ("t", 0),
            Ok(Ok(ExtensionType::Private)) => ("x", 0),
            Ok(Ok(ExtensionType::Other(c))) => ("other", c as u32),
            Ok(Err(_)) => ("err", 0),
            Err(_) => ("panic", 0),
        };
        log.ev(json!({"op":"ext_type","b": bt,"out": out,"ch": ch}));
    }
}

fn drive_sub(r: &mut Rng, n: usize, log: &mut Log) {
    ev_und(log);
    ev_ext_types(log);
    let kinds = ["language", "script", "region", "variant"];
    for _ in 0..n {
        let kind = *r.pick(&kinds);
        let mut v = match r.below(4) { 0 => gen_lang(r), 1 => gen_script(r), 2 => gen_region(r), _ => gen_variant(r) };
        if r.chance(1, 3) { v = v.to_ascii_uppercase(); }
        if r.chance(1, 3) { v = mutate(r, v); }
        if r.chance(1, 10) { v = (0..r.below(10)).map(|_| (r.next() & 0xff) as u8).collect(); }
        ev_sub(log, kind, &v);
        // a neighbour of the text just tried, straight after it (see replay: neighbours of an accepted subtag)
        if r.chance(1, 3) {
            let mut nb = v.clone();
            match r.below(5) { 0 => nb.push(b' '), 1 => nb.push(0), 2 => nb.insert(0, b' '), 3 => nb.extend_from_slice(&[0, 0, 0]), _ => nb.push(b'-') }
            ev_sub(log, kind, &nb);
        }
    }
}

/// one container grown to 5..12 distinct members in random order (with queries in between), then shrunk in another order
fn gen_grow_shrink(r: &mut Rng) -> Vec<Value> {
    // usually 5..12 members; now and then around a power of two (inline capacities, block sizes)
    let k = if r.chance(1, 6) { *r.pick(&[16usize, 17, 18, 32, 33, 34, 40]) } else { 5 + r.below(8) };
    let kind = r.below(5);
    let mut items: Vec<Vec<u8>> = Vec::new();
    while items.len() < k {
        let it = match kind {
            0 => word(r, ALNUM, 3, 8),                                   // attributes
            1 => { let mut x = word(r, ALNUM, 1, 1); x.extend(word(r, LOWER, 1, 1)); x }   // keyword keys
            2 => { let mut x = word(r, LOWER, 1, 1); x.extend(word(r, DIGIT, 1, 1)); x }   // tfield keys
            3 => word(r, ALNUM, 1, 8),                                   // private tags
            _ => gen_variant(r),                                         // variants (set as growing lists)
        };
        let low = it.to_ascii_lowercase();
        if !items.iter().any(|x| x.to_ascii_lowercase() == low) || (kind == 3 && r.chance(1, 4)) { items.push(it); }
    }
    let noisy = |r: &mut Rng, v: &Vec<u8>| -> Vec<u8> { if r.chance(1, 3) { v.to_ascii_uppercase() } else { v.clone() } };
    let e: Vec<Value> = Vec::new();
    let mut ops: Vec<Value> = Vec::new();
    let add = |r: &mut Rng, it: &Vec<u8>, ops: &mut Vec<Value>, sofar: &[Vec<u8>]| match kind {
        0 => ops.push(json!({"op":"set_attribute","s": bytes(&noisy(r, it)),"key":[],"vals":[]})),
        1 => { let n = r.below(3); let vals: Vec<Value> = (0..n).map(|_| bytes(&gen_type(r))).collect();
               ops.push(json!({"op":"set_keyword","s":[],"key": bytes(&noisy(r, it)),"vals": vals})) }
        2 => { let n = 1 + r.below(2); let vals: Vec<Value> = (0..n).map(|_| bytes(&gen_type(r))).collect();
               ops.push(json!({"op":"set_tfield","s":[],"key": bytes(&noisy(r, it)),"vals": vals})) }
        3 => ops.push(json!({"op":"add_tag","s": bytes(&noisy(r, it)),"key":[],"vals":[]})),
        _ => { let vals: Vec<Value> = sofar.iter().chain(std::iter::once(it)).map(|v| bytes(&noisy(r, v))).collect();
               ops.push(json!({"op":"set_variants","s":[],"key":[],"vals": vals})) }
    };
    let query = |r: &mut Rng, it: &Vec<u8>, ops: &mut Vec<Value>| match kind {
        0 => ops.push(json!({"op":"has_attribute","s": bytes(&noisy(r, it)),"key":[],"vals":[]})),
        1 => ops.push(json!({"op":"keyword","s":[],"key": bytes(&noisy(r, it)),"vals":[]})),
        2 => ops.push(json!({"op":"tfield","s":[],"key": bytes(&noisy(r, it)),"vals":[]})),
        3 => ops.push(json!({"op":"has_tag","s": bytes(&noisy(r, it)),"key":[],"vals":[]})),
        _ => ops.push(json!({"op":"has_variant","s": bytes(&noisy(r, it)),"key":[],"vals":[]})),
    };
    let remove = |r: &mut Rng, it: &Vec<u8>, ops: &mut Vec<Value>, left: &[Vec<u8>]| match kind {
        0 => ops.push(json!({"op":"remove_attribute","s": bytes(&noisy(r, it)),"key":[],"vals":[]})),
        1 => ops.push(json!({"op":"remove_keyword","s":[],"key": bytes(&noisy(r, it)),"vals":[]})),
        2 => ops.push(json!({"op":"remove_tfield","s":[],"key": bytes(&noisy(r, it)),"vals":[]})),
        3 => ops.push(json!({"op":"remove_tag","s": bytes(&noisy(r, it)),"key":[],"vals":[]})),
        _ => { let vals: Vec<Value> = left.iter().map(|v| bytes(v)).collect();
               ops.push(json!({"op":"set_variants","s":[],"key":[],"vals": vals})) }
    };
    let _ = e;
    // random insertion order
    let mut order: Vec<usize> = (0..items.len()).collect();
    for i in (1..order.len()).rev() { let j = r.below(i + 1); order.swap(i, j); }
    let mut sofar: Vec<Vec<u8>> = Vec::new();
    for &i in &order {
        add(r, &items[i], &mut ops, &sofar);
        sofar.push(items[i].clone());
        if r.chance(1, 2) { let q = sofar[r.below(sofar.len())].clone(); query(r, &q, &mut ops); }
        if r.chance(1, 4) && kind != 4 { let q = sofar[r.below(sofar.len())].clone(); let before: Vec<Vec<u8>> = Vec::new(); add(r, &q, &mut ops, &before); if kind == 3 { sofar.push(q); } }
        if r.chance(1, 6) { ops.push(json!({"op":"reparse","s":[],"key":[],"vals":[]})); }
    }
    // remove in another random order, re-adding one now and then (add-remove-add patterns)
    let mut left = sofar.clone();
    while !left.is_empty() {
        let j = r.below(left.len());
        let it = left.remove(j);
        remove(r, &it, &mut ops, &left);
        if r.chance(1, 2) && !left.is_empty() { let q = left[r.below(left.len())].clone(); query(r, &q, &mut ops); }
        if r.chance(1, 3) { query(r, &it, &mut ops); }
        if r.chance(1, 5) { add(r, &it, &mut ops, &left); left.push(it); }
        if ops.len() > 260 { break; }
    }
    ops
}

fn drive_hist(r: &mut Rng, n: usize, log: &mut Log, likely: bool) {
    let mut pool: Vec<Locale> = vec![Locale::default()];
    let mut produced = 0usize;
    while produced < n {
        // start: default() or a parsed well-formed locale
        let (text, mut loc) = if r.chance(1, 3) { (Vec::new(), Locale::default()) } else {
            let toks = gen_locale_tokens(r);
            let t = noisy_join(r, &toks);
            match guard(|| Locale::from_bytes(&t)) { Ok(Ok(l)) => (t, l), _ => (Vec::new(), Locale::default()) }
        };
        log.ev(json!({"op":"start","in": bytes(&text),"out":{"k":"ok"},"st": proj_loc(&loc)}));
        produced += 1;
        // every third history grows one container well past the sizes the small pools reach, queries it, and
        // shrinks it again in a different order (accumulated state: binary-search positions, capacities, thresholds)
        let mut scripted: Vec<Value> = if r.chance(1, 3) { gen_grow_shrink(r) } else { Vec::new() };
        if !scripted.is_empty() && r.chance(1, 2) {
            // identifier-level operations in between: they must leave the grown containers alone (C07, C08, C10)
            let extra = 2 + r.below(4);
            for _ in 0..extra {
                let lang = *r.pick(&["en", "zh", "sr", "und", "pa", "qqq"]);
                let op = match r.below(if likely { 7 } else { 5 }) {
                    0 => json!({"op":"set_language","s": bytes(lang.as_bytes()),"key":[],"vals":[]}),
                    1 => json!({"op":"clear_region","s":[],"key":[],"vals":[]}),
                    2 => json!({"op":"clear_script","s":[],"key":[],"vals":[]}),
                    3 => json!({"op":"set_region","s": bytes(r.pick(&["TW", "RS", "PK", "US"]).as_bytes()),"key":[],"vals":[]}),
                    4 => json!({"op":"set_script","s": bytes(r.pick(&["Hant", "Cyrl", "Arab", "Latn"]).as_bytes()),"key":[],"vals":[]}),
                    5 => json!({"op":"maximize","s":[],"key":[],"vals":[]}),
                    _ => json!({"op":"minimize","s":[],"key":[],"vals":[]}),
                };
                let at = r.below(scripted.len() + 1);
                scripted.insert(at, op);
            }
        }
        let len = if scripted.is_empty() { 5 + r.below(56) } else { scripted.len() };
        for step in 0..len {
            let op = if scripted.is_empty() { gen_op(r, likely) } else { scripted[step].clone() };
            log.about_to(&format!("op {} on {}", op, loc), b"");
            let res = guard(|| ops::apply(&mut loc, &op));
            let out = match res { Ok(x) => x, Err(at) => json!({"k":"panic","at": short_at(&at)}) };
            log.ev(json!({"op":"op","o": op,"out": out,"st": proj_loc(&loc),"ser": b(&loc.to_string()),"empties": empties(&loc.extensions)}));
            produced += 1;
            if step % 7 == 6 {
                ev_value(log, &loc);
                let other = pool[r.below(pool.len())].clone();
                ev_cmp(log, &loc, &other);
                ev_match(log, &loc, &other, r.chance(1, 2), r.chance(1, 2));
                produced += 3;
                if pool.len() < 64 { pool.push(loc.clone()); } else { let k = r.below(64); pool[k] = loc.clone(); }
            }
        }
        ev_value(log, &loc);
        produced += 1;
    }
}

fn drive_meta(r: &mut Rng, n: usize, log: &mut Log) {
    for it in 0..n {
        let mut toks = gen_locale_tokens(r);
        if it % 25 == 0 {
            // a long identifier (200..300 bytes): transformations that repeat a member cross length thresholds
            toks = gen_li_tokens(r);
            let want = 200 + r.below(100);
            while toks.iter().map(|t| t.len() + 1).sum::<usize>() < want { let v = gen_variant(r); toks.push(v); }
            if r.chance(1, 2) { toks.push(b"u".to_vec()); for _ in 0..(3 + r.below(6)) { toks.push(word(r, ALNUM, 3, 8)); } }
        }
        let mut a_toks = toks.clone();
        if r.chance(1, 4) {
            // make it ill-formed first: the transformed version must fail the same way
            let k = r.below(a_toks.len());
            a_toks[k] = mutate(r, a_toks[k].clone()).into_iter().filter(|c| *c != b'-' && *c != b'_').collect();
        }
        // every tenth pair: one unordered part with 9..14 (now and then 17 or 33) members; the second text repeats
        // members anywhere behind the original and/or lists them in another order
        if it % 10 == 5 {
            let k = if r.chance(1, 5) { *r.pick(&[17usize, 33]) } else { 9 + r.below(6) };
            let mut head: Vec<Vec<u8>> = vec![gen_lang(r)];
            let kind = r.below(2);
            let mut members: Vec<Vec<u8>> = Vec::new();
            while members.len() < k {
                let m = if kind == 0 { gen_variant(r) } else { word(r, ALNUM, 3, 8) };
                let low = m.to_ascii_lowercase();
                if !members.iter().any(|x| x.to_ascii_lowercase() == low) && !(kind == 1 && low.len() == 2) { members.push(m); }
            }
            if kind == 1 { head.push(b"u".to_vec()); }
            let mut a_t = head.clone();
            a_t.extend(members.iter().cloned());
            let mut second = members.clone();
            let tr = match r.below(3) {
                0 => { for _ in 0..(1 + r.below(3)) { let i = r.below(second.len()); let j = i + 1 + r.below(second.len() - i); let m = second[i].clone(); second.insert(j, m); } "repeat-anywhere" }
                1 => { for i in (1..second.len()).rev() { let j = r.below(i + 1); second.swap(i, j); } "permute" }
                _ => { for i in (1..second.len()).rev() { let j = r.below(i + 1); second.swap(i, j); }
                       let i = r.below(second.len()); let m = second[i].clone(); second.push(m); "permute+repeat" }
            };
            let mut b_t = head.clone();
            b_t.extend(second);
            let (a, bb) = (noisy_join(r, &a_t), noisy_join(r, &b_t));
            log.about_to("Locale::from_bytes (pair)", &[a.clone(), b"  |  ".to_vec(), bb.clone()].concat());
            let got = guard(|| (Locale::from_bytes(&a), Locale::from_bytes(&bb)));
            let same = match &got { Ok((Ok(x), Ok(y))) => x == y && x.to_string() == y.to_string(), Ok((Err(_), Err(_))) => true, _ => false };
            log.ev(json!({"op":"meta","a": bytes(&a),"b": bytes(&bb),"tr": tr,"same": same}));
            continue;
        }
        let a = noisy_join(r, &a_toks);
        let mut b_toks = a_toks.clone();
        let tr = match r.below(5) {
            0 => "case+sep",
            1 if b_toks.len() > 2 => { let k = 1 + r.below(b_toks.len() - 2); b_toks.swap(k, k + 1); "swap-adjacent" }
            2 if b_toks.len() > 1 => { let k = 1 + r.below(b_toks.len() - 1); let t = b_toks[k].clone(); b_toks.insert(k, t); "duplicate" }
            3 => {
                // rotate two extension blocks
                let pos: Vec<usize> = b_toks.iter().enumerate().filter(|(i, t)| *i > 0 && t.len() == 1).map(|(i, _)| i).collect();
                if pos.len() >= 2 {
                    let (p0, p1) = (pos[0], pos[1]);
                    let end = if pos.len() > 2 { pos[2] } else { b_toks.len() };
                    let mut nt = b_toks[..p0].to_vec();
                    nt.extend_from_slice(&b_toks[p1..end]);
                    nt.extend_from_slice(&b_toks[p0..p1]);
                    nt.extend_from_slice(&b_toks[end..]);
                    b_toks = nt;
                }
                "swap-blocks"
            }
            _ => "case+sep",
        };
        let bb = noisy_join(r, &b_toks);
        log.about_to("Locale::from_bytes (pair)", &[a.clone(), b"  |  ".to_vec(), bb.clone()].concat());
        let got = guard(|| (Locale::from_bytes(&a), Locale::from_bytes(&bb)));
        let same = match &got {
            Ok((Ok(x), Ok(y))) => x == y && x.to_string() == y.to_string(),
            Ok((Err(_), Err(_))) => true,
            _ => false,
        };
        log.ev(json!({"op":"meta","a": bytes(&a),"b": bytes(&bb),"tr": tr,"same": same}));
    }
}

#[cfg(feature = "likelysubtags")]
fn likely_event(log: &mut Log, l: &[u8], s: &[u8], rg: &[u8]) {
    use unic_langid_impl::likelysubtags;
    let mk = || -> Option<(Language, Option<Script>, Option<Region>)> {
        Some((Language::from_bytes(l).ok()?,
              if s.is_empty() { None } else { Some(Script::from_bytes(s).ok()?) },
              if rg.is_empty() { None } else { Some(Region::from_bytes(rg).ok()?) }))
    };
    let t = match mk() { Some(t) => t, None => return };
    let enc = |x: Option<(Language, Option<Script>, Option<Region>)>| -> Value {
        match x {
            Some(y) => json!([true, [b(y.0.as_str()), y.1.map(|q| b(q.as_str())).unwrap_or(json!([])), y.2.map(|q| b(q.as_str())).unwrap_or(json!([]))]]),
            None => json!([false, [b(t.0.as_str()), t.1.map(|q| b(q.as_str())).unwrap_or(json!([])), t.2.map(|q| b(q.as_str())).unwrap_or(json!([]))]]),
        }
    };
    if let Ok((mx, mn)) = guard(|| (likelysubtags::maximize(t.0, t.1, t.2), likelysubtags::minimize(t.0, t.1, t.2))) {
        log.ev(json!({"op":"likely","l": b(t.0.as_str()),"s": t.1.map(|q| b(q.as_str())).unwrap_or(json!([])),
                      "r": t.2.map(|q| b(q.as_str())).unwrap_or(json!([])),"max": enc(mx),"min": enc(mn)}));
    } else {
        log.ev(json!({"op":"li_parse","in": bytes(l),"out": {"k":"panic","at":"likelysubtags"},"st": default_li(),"ser": []}));
    }
}

fn dir_event(log: &mut Log, l: &[u8], s: &[u8], rg: &[u8]) {
    let mk = || -> Option<LanguageIdentifier> {
        Some(LanguageIdentifier::from_parts(Language::from_bytes(l).ok()?,
              if s.is_empty() { None } else { Some(Script::from_bytes(s).ok()?) },
              if rg.is_empty() { None } else { Some(Region::from_bytes(rg).ok()?) }, &[]))
    };
    if let Some(li) = mk() {
        // asked twice in a row: the answer is a function of the identifier
        if let Ok((d, d2)) = guard(|| (li.character_direction(), li.character_direction())) {
            let name = format!("{:?}", d);
            log.ev(json!({"op":"dir","l": b(li.language.as_str()),"s": li.script.map(|q| b(q.as_str())).unwrap_or(json!([])),
                          "r": li.region.map(|q| b(q.as_str())).unwrap_or(json!([])),"likely": cfg!(feature = "likelysubtags"),"dir": name,
                          "dir2": format!("{:?}", d2)}));
        }
    }
}

fn drive_likely(r: &mut Rng, n: usize, log: &mut Log, data: &str) {
    let text = std::fs::read_to_string(data).expect("likelySubtags.json");
    let v: Value = serde_json::from_str(&text).expect("json");
    let mut langs: Vec<String> = vec!["und".into(), "zz".into(), "qqq".into()];
    let mut scripts: Vec<String> = vec!["".into(), "Zzzz".into(), "Qaaa".into()];
    let mut regions: Vec<String> = vec!["".into(), "ZZ".into(), "999".into()];
    for (k, val) in v["supplemental"]["likelySubtags"].as_object().expect("object") {
        for (i, p) in k.split('-').chain(val.as_str().unwrap_or("").split('-')).enumerate() {
            let _ = i;
            match p.len() {
                4 if p.chars().all(|c| c.is_ascii_alphabetic()) => scripts.push(p.to_string()),
                2 | 3 if p.chars().all(|c| c.is_ascii_uppercase() || c.is_ascii_digit()) => regions.push(p.to_string()),
                _ => langs.push(p.to_string()),
            }
        }
    }
    // words the library's sources mention, in the positions they fit (a code the implementation treats specially)
    let mut dict_s: Vec<String> = Vec::new();
    for w in dict().iter() {
        if let Ok(t) = std::str::from_utf8(w) {
            if Script::from_bytes(w).is_ok() { scripts.push(Script::from_bytes(w).unwrap().as_str().to_string()); dict_s.push(scripts.last().unwrap().clone()); }
            else if Region::from_bytes(w).is_ok() { regions.push(Region::from_bytes(w).unwrap().as_str().to_string()); }
            else if Language::from_bytes(w).is_ok() && t.to_ascii_lowercase() != "und" { langs.push(t.to_ascii_lowercase()); }
        }
    }
    langs.sort(); langs.dedup(); scripts.sort(); scripts.dedup(); regions.sort(); regions.dedup();
    // regions / scripts the data keys with each language: the neighbours a remembered lookup would be confused with
    let mut keyed: std::collections::HashMap<String, (Vec<String>, Vec<String>)> = Default::default();
    for (k, _) in v["supplemental"]["likelySubtags"].as_object().expect("object") {
        let ps: Vec<&str> = k.split('-').collect();
        let e = keyed.entry(ps[0].to_string()).or_default();
        for p in &ps[1..] { if p.len() == 4 { e.0.push(p.to_string()); } else { e.1.push(p.to_string()); } }
    }
    const RTL_MULTI: &[&str] = &["pa", "ha", "ms", "az", "uz", "sd", "ks", "ku", "ff", "bm", "bal", "ar", "fa", "he", "ur", "ug"];
    let mut burst: Vec<(String, String, String)> = Vec::new();
    for _ in 0..n {
        // bursts: several questions about ONE language in a row (bare, with each keyed region / script), so that a call
        // is preceded by its nearest neighbours
        if burst.is_empty() && r.chance(1, 4) {
            let l = if r.chance(1, 2) { r.pick(RTL_MULTI).to_string() } else { r.pick(&langs).clone() };
            let (ks, kr) = keyed.get(&l).cloned().unwrap_or_default();
            for _ in 0..(2 + r.below(4)) {
                let s = if ks.is_empty() || r.chance(2, 3) { String::new() } else { r.pick(&ks).clone() };
                let rg = if kr.is_empty() || r.chance(1, 2) { String::new() } else { r.pick(&kr).clone() };
                burst.push((l.clone(), s, rg));
            }
        }
        let (l, s, rg) = match burst.pop() {
            Some(t) => t,
            None => (if r.chance(1, 6) { "und".to_string() } else { r.pick(&langs).clone() },
                     if r.chance(1, 2) { String::new() } else if !dict_s.is_empty() && r.chance(1, 8) { r.pick(&dict_s).clone() } else { r.pick(&scripts).clone() },
                     if r.chance(1, 2) { String::new() } else { r.pick(&regions).clone() }),
        };
        #[cfg(feature = "likelysubtags")]
        likely_event(log, l.as_bytes(), s.as_bytes(), rg.as_bytes());
        dir_event(log, l.as_bytes(), s.as_bytes(), rg.as_bytes());
    }
}

/// matches()/cmp over a product domain of identifiers (sampled): same-language pairs are favoured because
/// that is where range flags, scripts and regions interact
fn drive_match(r: &mut Rng, n: usize, log: &mut Log) {
    const LANGS: &[&str] = &["en", "sr", "zh", "und", "pa", "ar", "uz"];
    const SCRIPTS: &[&str] = &["", "Latn", "Cyrl", "Hans", "Hant", "Arab", "Lato"];
    const REGIONS: &[&str] = &["", "US", "RS", "TW", "PK", "419", "001", "005", "014", "015", "150", "154", "UT"];
    const VARS: &[&str] = &["", "valencia", "1996-valencia"];
    const EXTS: &[&str] = &["", "-u-ca-buddhist", "-t-en-h0-hybrid", "-x-foo"];
    let mk = |r: &mut Rng, lang: &str| -> Locale {
        let mut s = lang.to_string();
        for part in [*r.pick(SCRIPTS), *r.pick(REGIONS), *r.pick(VARS)] {
            if !part.is_empty() { s.push('-'); s.push_str(part); }
        }
        if r.chance(1, 4) { let e: &str = *r.pick(EXTS); s.push_str(e); }
        Locale::from_bytes(s.as_bytes()).expect("well-formed by construction")
    };
    // words the library's sources mention, by the production they fit (a code the implementation treats specially)
    let dict_fit = |r: &mut Rng, kind: u8| -> Option<String> {
        let d: Vec<String> = dict().iter().filter_map(|w| std::str::from_utf8(w).ok().map(|x| x.to_string())).filter(|w| match kind {
            0 => Language::from_bytes(w.as_bytes()).is_ok(),
            1 => Script::from_bytes(w.as_bytes()).is_ok(),
            2 => Region::from_bytes(w.as_bytes()).is_ok(),
            _ => Variant::from_bytes(w.as_bytes()).is_ok(),
        }).collect();
        if d.is_empty() { None } else { Some(d[r.below(d.len())].clone()) }
    };
    let mut produced = 0;
    let mut round = 0usize;
    while produced < n {
        round += 1;
        let (a, bb) = if round % 6 == 0 {
            // long variant lists: equal, or differing in one member (often the last one), or one a prefix of the other
            let k = if r.chance(1, 4) { *r.pick(&[8usize, 9, 16, 17, 33]) } else { 5 + r.below(12) };
            let mut vs: Vec<Vec<u8>> = Vec::new();
            while vs.len() < k { let v = gen_variant(r).to_ascii_lowercase(); if !vs.contains(&v) { vs.push(v); } }
            vs.sort();
            let mut ws = vs.clone();
            match r.below(4) {
                0 => {}
                1 => { let i = ws.len() - 1; ws[i] = b"zzzzzzz9".to_vec(); }
                2 => { let i = r.below(ws.len()); ws[i] = gen_variant(r).to_ascii_lowercase(); }
                _ => { ws.pop(); }
            }
            let mkl = |head: &str, v: &Vec<Vec<u8>>| { let mut t = head.as_bytes().to_vec(); for x in v { t.push(b'-'); t.extend_from_slice(x); } Locale::from_bytes(&t).expect("well-formed by construction") };
            let head = *r.pick(&["en", "en-US", "sr-Cyrl-RS", "und"]);
            (mkl(head, &vs), mkl(if r.chance(3, 4) { head } else { "en" }, &ws))
        } else if round % 6 == 3 {
            // dictionary words in the positions they fit: against an absent field, a different value, themselves
            let mut parts: Vec<String> = Vec::new();
            let l = dict_fit(r, 0).filter(|_| r.chance(1, 2)).unwrap_or_else(|| "en".to_string());
            let mut s1 = l.clone();
            // the other side: the same language, another dictionary language (an alias table maps one code to another), or en
            let mut s2 = match r.below(4) { 0 | 1 => l.clone(), 2 => dict_fit(r, 0).unwrap_or_else(|| "en".to_string()), _ => "en".to_string() };
            for kind in 1..4u8 {
                let fallback = ["", "Latn", "US", "valencia"][kind as usize];
                let w = dict_fit(r, kind).unwrap_or_else(|| fallback.to_string());
                match r.below(4) { 0 => { s1.push('-'); s1.push_str(&w); } 1 => { s1.push('-'); s1.push_str(&w); s2.push('-'); s2.push_str(&w); }
                                   2 => { s1.push('-'); s1.push_str(&w); s2.push('-'); s2.push_str(fallback); } _ => {} }
                parts.push(w);
            }
            match (Locale::from_bytes(s1.as_bytes()), Locale::from_bytes(s2.as_bytes())) { (Ok(x), Ok(y)) => (x, y), _ => { let la = *r.pick(LANGS); (mk(r, la), mk(r, la)) } }
        } else {
            let la = *r.pick(LANGS);
            let lb = if r.chance(3, 4) { la } else { *r.pick(LANGS) };
            (mk(r, la), mk(r, lb))
        };
        for (ra, rb) in [(false, false), (false, true), (true, false), (true, true)] {
            ev_match(log, &a, &bb, ra, rb);
            produced += 1;
        }
        ev_cmp(log, &a, &bb);
        produced += 1;
    }
}

pub fn main(args: &[String]) {
    let get = |name: &str| args.iter().position(|a| a == name).and_then(|i| args.get(i + 1).cloned());
    let driver = args.first().cloned().unwrap_or_default();
    let seed: u64 = get("--seed").and_then(|s| s.parse().ok()).unwrap_or(1);
    let n: usize = get("--n").and_then(|s| s.parse().ok()).unwrap_or(1000);
    let out = get("--out").expect("--out FILE");
    let data = get("--likely-data")
        .or_else(|| std::env::var("VERIF_LIKELY").ok())
        .unwrap_or_else(|| "/repo/unic-langid-impl/data/likelySubtags.json".into());
    let mut r = Rng::new(seed ^ (driver.len() as u64) << 32 ^ driver.bytes().fold(0u64, |a, c| a.wrapping_mul(131).wrapping_add(c as u64)));
    let mut log = Log::new(&out);
    match driver.as_str() {
        "parse" => drive_parse(&mut r, n, &mut log),
        "deep" => drive_deep(&mut r, n, &mut log),
        "sub" => drive_sub(&mut r, n, &mut log),
        "hist" => drive_hist(&mut r, n, &mut log, cfg!(feature = "likelysubtags")),
        "hist-nolikely" => drive_hist(&mut r, n, &mut log, false),
        "meta" => drive_meta(&mut r, n, &mut log),
        "match" => drive_match(&mut r, n, &mut log),
        "likely" => drive_likely(&mut r, n, &mut log, &data),
        _ => {
            eprintln!("unknown driver {}", driver);
            std::process::exit(2);
        }
    }
    use std::io::Write as _;
    let _ = log.f.flush();
    let _ = std::fs::remove_file(format!("{}.pending", out));
    println!("{}", json!({"driver": driver, "seed": seed, "events": log.n, "by_op": log.by_op}));
}
