//! impl -> spec: drivers that exercise the real API and log one event per public call.
pub fn main(_args: &[String]) {
    eprintln!("drivers: not built yet");
    std::process::exit(2);
}
