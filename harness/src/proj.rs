//! Projection of library values onto the abstract state of the TLA+ specification.
//! One function, used by every replayer and every trace driver.  Byte strings travel as
//! JSON arrays of integers so that the specification sees exactly the bytes the library produced.

use serde_json::{json, Value};
use unic_langid_impl::LanguageIdentifier;
use unic_locale_impl::{ExtensionsMap, Locale};

pub fn b(s: &str) -> Value {
    Value::Array(s.bytes().map(Value::from).collect())
}

pub fn bytes(s: &[u8]) -> Value {
    Value::Array(s.iter().map(|x| Value::from(*x)).collect())
}

pub fn unbytes(v: &Value) -> Vec<u8> {
    if let Some(s) = v.as_str() {
        return s.as_bytes().to_vec();
    }
    v.as_array()
        .map(|a| a.iter().map(|x| x.as_u64().unwrap_or(0) as u8).collect())
        .unwrap_or_default()
}

pub fn unbytes_list(v: &Value) -> Vec<Vec<u8>> {
    v.as_array()
        .map(|a| a.iter().map(unbytes).collect())
        .unwrap_or_default()
}

pub fn show(bs: &[u8]) -> String {
    let mut s = String::new();
    for &c in bs {
        if (0x20..0x7f).contains(&c) && c != b'\\' {
            s.push(c as char);
        } else {
            s.push_str(&format!("\\x{:02x}", c));
        }
    }
    s
}

pub fn proj_li(li: &LanguageIdentifier) -> Value {
    json!({
        "lang": b(li.language.as_str()),
        "script": li.script.as_ref().map(|s| b(s.as_str())).unwrap_or_else(|| json!([])),
        "region": li.region.as_ref().map(|s| b(s.as_str())).unwrap_or_else(|| json!([])),
        "variants": li.variants().map(|v| b(v.as_str())).collect::<Vec<_>>(),
    })
}

pub fn proj_ext(id: Value, e: &ExtensionsMap) -> Value {
    let u = &e.unicode;
    let t = &e.transform;
    let kw: Vec<Value> = u
        .keyword_keys()
        .map(|k| {
            let vals: Vec<Value> = u.keyword(k).expect("keyword() on listed key").map(b).collect();
            json!([b(k), vals])
        })
        .collect();
    let tf: Vec<Value> = t
        .tfield_keys()
        .map(|k| {
            let vals: Vec<Value> = t.tfield(k).expect("tfield() on listed key").map(b).collect();
            json!([b(k), vals])
        })
        .collect();
    json!({
        "id": id,
        "attrs": u.attributes().map(b).collect::<Vec<_>>(),
        "kw": kw,
        "tlang": match t.tlang() { Some(l) => json!([proj_li(l)]), None => json!([]) },
        "tf": tf,
        "priv": e.private.tags().map(b).collect::<Vec<_>>(),
    })
}

pub fn proj_loc(l: &Locale) -> Value {
    proj_ext(proj_li(&l.id), &l.extensions)
}

/// is_empty flags of the three supported extensions and of the map
pub fn empties(e: &ExtensionsMap) -> Value {
    json!([e.unicode.is_empty(), e.transform.is_empty(), e.private.is_empty(), e.is_empty()])
}
