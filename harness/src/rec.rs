//! Disagreement recorder, panic capture and the CPU-time watchdog.

use serde_json::{json, Value};
use std::cell::RefCell;
use std::collections::BTreeMap;
use std::io::Write;
use std::panic::{self, AssertUnwindSafe};
use std::sync::atomic::{AtomicU64, Ordering};
use std::sync::{Arc, Mutex};

thread_local! {
    static LAST_PANIC: RefCell<Option<String>> = RefCell::new(None);
}

pub fn install_panic_hook() {
    panic::set_hook(Box::new(|info| {
        let loc = info
            .location()
            .map(|l| format!("{}:{}", l.file(), l.line()))
            .unwrap_or_else(|| "?".into());
        let msg = if let Some(s) = info.payload().downcast_ref::<&str>() {
            (*s).to_string()
        } else if let Some(s) = info.payload().downcast_ref::<String>() {
            s.clone()
        } else {
            String::new()
        };
        LAST_PANIC.with(|p| *p.borrow_mut() = Some(format!("{} ({})", loc, msg)));
    }));
}

/// Run `f`; a panic becomes Err("file:line (message)").
pub fn guard<T>(f: impl FnOnce() -> T) -> Result<T, String> {
    match panic::catch_unwind(AssertUnwindSafe(f)) {
        Ok(v) => Ok(v),
        Err(_) => Err(LAST_PANIC.with(|p| p.borrow_mut().take()).unwrap_or_else(|| "?".into())),
    }
}

/// strip the absolute prefix so that signatures are stable across checkouts
pub fn short_at(at: &str) -> String {
    match at.find("/unic-") {
        Some(i) => at[i + 1..].to_string(),
        None => at.to_string(),
    }
}

pub struct Recorder {
    out: Option<std::fs::File>,
    pub count: u64,
    pub by_prop: BTreeMap<String, u64>,
    per_sig: BTreeMap<String, u64>,
    pub cap_per_sig: u64,
    pub stats: BTreeMap<String, u64>,
    /// the raw case line being replayed (kept so that a disagreement can be replayed verbatim)
    pub cur_case: Option<String>,
    /// integer form -> canonical text, per subtag kind (C17: distinct subtags, distinct integers)
    pub raw_seen: std::collections::HashMap<(u8, u64), String>,
    /// class cases of MC_Sweep.tla, swept after the last case has been read
    pub sweep: Option<Box<crate::sweep::Sweep>>,
    /// distinct values reached during the run (by canonical text): the order axioms are checked across all of them at the end (C12)
    pub pool: Vec<unic_locale_impl::Locale>,
    pub pool_seen: std::collections::HashSet<String>,
    pub pool_offered: u64,
}

impl Recorder {
    pub fn new(path: Option<&str>) -> Self {
        Recorder {
            out: path.map(|p| std::fs::File::create(p).expect("create disagreement file")),
            count: 0,
            by_prop: BTreeMap::new(),
            per_sig: BTreeMap::new(),
            cap_per_sig: 40,
            stats: BTreeMap::new(),
            cur_case: None,
            raw_seen: std::collections::HashMap::new(),
            sweep: None,
            pool: Vec::new(),
            pool_seen: std::collections::HashSet::new(),
            pool_offered: 0,
        }
    }

    /// Keep up to POOL_CAP distinct values: the first half as they come, the rest spread over the whole run.
    pub fn pool_add(&mut self, l: &unic_locale_impl::Locale) {
        const POOL_CAP: usize = 700;
        let text = l.to_string();
        if self.pool_seen.contains(&text) {
            return;
        }
        self.pool_offered += 1;
        if self.pool.len() < POOL_CAP {
            self.pool_seen.insert(text);
            self.pool.push(l.clone());
        } else if self.pool_offered % 97 == 0 {
            // deterministic replacement in the second half
            let idx = POOL_CAP / 2 + ((self.pool_offered / 97) as usize % (POOL_CAP / 2));
            let old = self.pool[idx].to_string();
            self.pool_seen.remove(&old);
            self.pool_seen.insert(text);
            self.pool[idx] = l.clone();
        }
    }

    pub fn stat(&mut self, k: &str) {
        *self.stats.entry(k.to_string()).or_insert(0) += 1;
    }
    pub fn stat_n(&mut self, k: &str, n: u64) {
        *self.stats.entry(k.to_string()).or_insert(0) += n;
    }

    /// `props`: the properties this disagreement violates; `what`: stable class name;
    /// `detail`: everything needed to replay it.
    pub fn dis(&mut self, props: &[&str], what: &str, detail: Value) {
        self.count += 1;
        for p in props {
            *self.by_prop.entry((*p).to_string()).or_insert(0) += 1;
        }
        let sig = format!("{}|{}", props.join(","), what);
        let n = self.per_sig.entry(sig).or_insert(0);
        *n += 1;
        if *n > self.cap_per_sig {
            return;
        }
        if let Some(f) = self.out.as_mut() {
            let case = self.cur_case.as_ref().filter(|c| c.len() < 60_000).cloned();
            let rec = json!({"props": props, "what": what, "detail": detail, "case": case});
            let _ = writeln!(f, "{}", rec);
        }
    }

    /// records (kind, integer) -> text; a second, different text for the same integer is a collision
    pub fn raw_form(&mut self, kind: u8, raw: u64, text: &str) {
        let clash = match self.raw_seen.get(&(kind, raw)) {
            Some(t) if t != text => Some(t.clone()),
            Some(_) => None,
            None => {
                self.raw_seen.insert((kind, raw), text.to_string());
                None
            }
        };
        if let Some(t) = clash {
            self.dis(&["C17"], "raw-form-collision", json!({"kind": kind, "raw": raw, "texts": [t, text]}));
        }
    }

    pub fn summary(&self) -> Value {
        json!({"disagreements": self.count, "by_prop": self.by_prop, "stats": self.stats,
               "classes": self.per_sig})
    }
}

/// Process CPU time in clock ticks (utime + stime) from /proc/self/stat; no libc needed.
fn cpu_ticks() -> u64 {
    let s = std::fs::read_to_string("/proc/self/stat").unwrap_or_default();
    // fields after the closing paren of comm
    let rest = s.rsplit(')').next().unwrap_or("");
    let f: Vec<&str> = rest.split_whitespace().collect();
    // after ')' the fields start at index 0 = state(3); utime = field 14, stime = field 15
    let ut = f.get(11).and_then(|x| x.parse::<u64>().ok()).unwrap_or(0);
    let st = f.get(12).and_then(|x| x.parse::<u64>().ok()).unwrap_or(0);
    ut + st
}

pub struct Watchdog {
    pub progress: Arc<AtomicU64>,
    pub current: Arc<Mutex<String>>,
}

impl Watchdog {
    /// A case that burns more than `limit_s` seconds of CPU without finishing is a hang.
    /// CPU time, not wall clock: a loaded machine must not produce a false alarm.
    pub fn start(limit_s: u64, hang_file: Option<String>) -> Self {
        let progress = Arc::new(AtomicU64::new(0));
        let current = Arc::new(Mutex::new(String::new()));
        let p2 = progress.clone();
        let c2 = current.clone();
        std::thread::spawn(move || {
            let mut last_p = 0u64;
            let mut cpu_at_last = cpu_ticks();
            loop {
                std::thread::sleep(std::time::Duration::from_millis(500));
                let p = p2.load(Ordering::Relaxed);
                let cpu = cpu_ticks();
                if p != last_p {
                    last_p = p;
                    cpu_at_last = cpu;
                } else if cpu.saturating_sub(cpu_at_last) > limit_s * 100 {
                    let cur = c2.lock().map(|g| g.clone()).unwrap_or_default();
                    if let Some(hf) = &hang_file {
                        let _ = std::fs::write(hf, &cur);
                    }
                    eprintln!("HANG after {} cases; current case: {}", p, cur);
                    std::process::exit(3);
                }
            }
        });
        Watchdog { progress, current }
    }
    pub fn begin(&self, line: &str) {
        if let Ok(mut g) = self.current.lock() {
            g.clear();
            g.push_str(line);
        }
    }
    pub fn end(&self) {
        self.progress.fetch_add(1, Ordering::Relaxed);
    }
}
