"""C16: generated programs made of macro invocations.

Literals and their expected meaning come from the TLC case streams (so the specification decides
which literal is well formed and what it denotes); this module only turns them into Rust source,
builds it against /repo's working tree and collects what happened:
  crate A (well-formed literals): runs, prints one event per invocation -> validated by Trace.tla
  crate B (ill-formed literals + well-formed controls): must fail to compile with an error
          attributed to every ill-formed line and to no other line.
"""
import json, os, re, shutil, subprocess
import engine
from engine import ToolError, WORK, REPO, HARNESS


def printable(bs):
    return all(0x20 <= b < 0x7f and b not in (0x22, 0x5c) for b in bs)


def lit(bs):
    return bytes(bs).decode("ascii")


CARGO = """[package]
name = "{name}"
version = "0.1.0"
edition = "2021"
publish = false

[workspace]

[dependencies]
unic-langid = {{ path = "{repo}/unic-langid", features = [{feats}] }}
unic-locale = {{ path = "{repo}/unic-locale", features = [{feats_loc}] }}
unic-langid-impl = {{ path = "{repo}/unic-langid-impl" }}
unic-locale-impl = {{ path = "{repo}/unic-locale-impl" }}
serde_json = "1.0"
"""


def crate_dir(name, features=("macros",)):
    d = os.path.join(WORK, "macrogen", name)
    shutil.rmtree(d, ignore_errors=True)
    os.makedirs(os.path.join(d, "src"))
    feats = ", ".join('"%s"' % f for f in features)
    feats_loc = ", ".join('"%s"' % f for f in features if f != "serde")      # unic-locale has no serde feature
    open(os.path.join(d, "Cargo.toml"), "w").write(CARGO.format(name=name, repo=REPO, feats=feats, feats_loc=feats_loc))
    shutil.copy(os.path.join(HARNESS, "Cargo.lock"), d)
    os.makedirs(os.path.join(d, ".cargo"))
    open(os.path.join(d, ".cargo", "config.toml"), "w").write("[net]\noffline = true\n")
    return d


def cargo_env(tag=""):
    env = dict(os.environ)
    env["CARGO_TARGET_DIR"] = os.path.join(WORK, "target-macros" + tag)
    env["CARGO_NET_OFFLINE"] = "true"
    return env


PRELUDE = r'''
#![allow(unused_imports, unused_unsafe)]
use serde_json::{json, Value};
use std::panic::{catch_unwind, AssertUnwindSafe};
use unic_langid::{lang, langid, langid_slice, langids, region, script, variant, LanguageIdentifier};
use unic_locale::{locale, locales, Locale};
#[path = "PROJ"]
#[allow(dead_code)]
mod proj;
use proj::*;

fn out<T>(m: &str, lit: &str, r: std::thread::Result<T>, f: impl Fn(&T) -> (Value, bool)) {
    match r {
        Ok(v) => {
            let (st, eq) = f(&v);
            println!("{}", json!({"op":"macro","m":m,"lit":bytes(lit.as_bytes()),"out":{"k":"ok"},"st":st,"rt_eq":eq}));
        }
        Err(_) => println!("{}", json!({"op":"macro","m":m,"lit":bytes(lit.as_bytes()),"out":{"k":"panic"},"st":[],"rt_eq":false})),
    }
}
fn li(m: &str, lit: &str, v: std::thread::Result<LanguageIdentifier>) {
    out(m, lit, v, |v| (proj_li(v), lit.parse::<LanguageIdentifier>().map(|p| &p == v && p.to_string() == v.to_string()).unwrap_or(false)));
}
fn loc(m: &str, lit: &str, v: std::thread::Result<Locale>) {
    out(m, lit, v, |v| (proj_loc(v), lit.parse::<Locale>().map(|p| &p == v && p.to_string() == v.to_string()).unwrap_or(false)));
}
'''


def gen_ok_crate(li_lits, loc_lits, subs, features=("macros",), name="macros_ok", long_lists=()):
    """li_lits / loc_lits: lists of literal strings; subs: list of (kind, literal); long_lists: lists of language-identifier
    literals, each passed to ONE langids! / langid_slice! / locales! invocation."""
    tag = "" if tuple(features) == ("macros",) else "-" + "_".join(features)
    d = crate_dir(name, features)
    src = [PRELUDE.replace("PROJ", os.path.join(HARNESS, "src", "proj.rs"))]
    # hygiene: invocations by full path from a module with no imports at all, and from one whose own items are called
    # like the library's types (an expansion must name what it needs through $crate, not through the caller's scope)
    src.append(r"""
mod bare {
    pub fn li() -> unic_langid::LanguageIdentifier { unic_langid::langid!("en-Latn-US-valencia") }
    pub fn lo() -> unic_locale::Locale { unic_locale::locale!("de-AT-u-ca-buddhist-t-en-h0-hybrid-x-foo") }
    pub fn ls() -> Vec<unic_langid::LanguageIdentifier> { unic_langid::langids!["und", "sr-Cyrl"] }
    pub fn sl() -> Vec<unic_langid::LanguageIdentifier> { let s: &[unic_langid::LanguageIdentifier] = unic_langid::langid_slice!["pl", "und-419"]; s.to_vec() }
    pub fn lc() -> Vec<unic_locale::Locale> { unic_locale::locales!["en-x-a", "und"] }
    pub fn la() -> unic_langid::subtags::Language { unic_langid::lang!("und") }
}
#[allow(dead_code, non_snake_case)]
mod shadow {
    pub struct LanguageIdentifier;
    pub struct Locale;
    pub struct Language;
    pub struct Script;
    pub struct Region;
    pub struct Variant;
    pub struct ExtensionsMap;
    pub mod subtags { pub struct Language; }
    pub mod unic_langid_impl {}
    pub fn li() -> unic_langid::LanguageIdentifier { unic_langid::langid!("sl-rozaj-1994") }
    pub fn lo() -> unic_locale::Locale { unic_locale::locale!("und-Latn-u-attr-nu-latn") }
    pub fn sc() -> unic_langid::subtags::Script { unic_langid::script!("cyrl") }
    pub fn rg() -> unic_langid::subtags::Region { unic_langid::region!("419") }
    pub fn va() -> unic_langid::subtags::Variant { unic_langid::variant!("1996") }
}
""")
    src.append("fn main() {\n    std::panic::set_hook(Box::new(|_| {}));")
    src.append('    li("langid", "en-Latn-US-valencia", catch_unwind(|| bare::li()));')
    src.append('    loc("locale", "de-AT-u-ca-buddhist-t-en-h0-hybrid-x-foo", catch_unwind(|| bare::lo()));')
    src.append('    { let v = bare::ls(); li("langids", "und", Ok(v[0].clone())); li("langids", "sr-Cyrl", Ok(v[1].clone())); }')
    src.append('    { let v = bare::sl(); li("langid_slice", "pl", Ok(v[0].clone())); li("langid_slice", "und-419", Ok(v[1].clone())); }')
    src.append('    { let v = bare::lc(); loc("locales", "en-x-a", Ok(v[0].clone())); loc("locales", "und", Ok(v[1].clone())); }')
    src.append('    out("language", "und", catch_unwind(|| bare::la()), |v| (b(v.as_str()), "und".parse::<unic_langid::subtags::Language>().map(|p| p == *v).unwrap_or(false)));')
    src.append('    li("langid", "sl-rozaj-1994", catch_unwind(|| shadow::li()));')
    src.append('    loc("locale", "und-Latn-u-attr-nu-latn", catch_unwind(|| shadow::lo()));')
    src.append('    out("script", "cyrl", catch_unwind(|| shadow::sc()), |v| (b(v.as_str()), "cyrl".parse::<unic_langid::subtags::Script>().map(|p| p == *v).unwrap_or(false)));')
    src.append('    out("region", "419", catch_unwind(|| shadow::rg()), |v| (b(v.as_str()), "419".parse::<unic_langid::subtags::Region>().map(|p| p == *v).unwrap_or(false)));')
    src.append('    out("variant", "1996", catch_unwind(|| shadow::va()), |v| (b(v.as_str()), "1996".parse::<unic_langid::subtags::Variant>().map(|p| p == *v).unwrap_or(false)));')
    n = 14
    for s in li_lits:
        src.append('    li("langid", "%s", catch_unwind(AssertUnwindSafe(|| langid!("%s"))));' % (s, s))
        n += 1
    for s in loc_lits:
        src.append('    loc("locale", "%s", catch_unwind(AssertUnwindSafe(|| locale!("%s"))));' % (s, s))
        n += 1
    for kind, s in subs:
        mac = {"language": "lang", "script": "script", "region": "region", "variant": "variant"}[kind]
        ty = {"language": "Language", "script": "Script", "region": "Region", "variant": "Variant"}[kind]
        src.append('    out("%s", "%s", catch_unwind(AssertUnwindSafe(|| %s!("%s"))), |v| (b(v.as_str()), "%s".parse::<unic_langid::subtags::%s>().map(|p| p == *v).unwrap_or(false)));'
                   % (kind, s, mac, s, s, ty))
        n += 1
    # list macros, in chunks of 7 (with and without a trailing comma)
    for i in range(0, len(li_lits), 7):
        chunk = li_lits[i:i + 7]
        args = ", ".join('"%s"' % s for s in chunk)
        tc = "," if (i // 7) % 2 else ""
        src.append("    { let names = [%s]; match catch_unwind(AssertUnwindSafe(|| { let v: Vec<LanguageIdentifier> = langids![%s%s]; v })) { Ok(v) => { if v.len() != names.len() { println!(\"{}\", json!({\"op\":\"macro\",\"m\":\"langids\",\"lit\":[],\"out\":{\"k\":\"panic\"},\"st\":[],\"rt_eq\":false})); } for (x, nm) in v.into_iter().zip(names.iter()) { li(\"langids\", nm, Ok(x)); } } Err(e) => li(\"langids\", names[0], Err(e)) } }"
                   % (args, args, tc))
        src.append("    { let names = [%s]; match catch_unwind(AssertUnwindSafe(|| { let s: &[LanguageIdentifier] = langid_slice![%s%s]; s.to_vec() })) { Ok(v) => { for (x, nm) in v.into_iter().zip(names.iter()) { li(\"langid_slice\", nm, Ok(x)); } } Err(e) => li(\"langid_slice\", names[0], Err(e)) } }"
                   % (args, args, tc))
        n += 2 * len(chunk)
    for i in range(0, len(loc_lits), 7):
        chunk = loc_lits[i:i + 7]
        args = ", ".join('"%s"' % s for s in chunk)
        tc = "," if (i // 7) % 2 else ""
        src.append("    { let names = [%s]; match catch_unwind(AssertUnwindSafe(|| { let v: Vec<Locale> = locales![%s%s]; v })) { Ok(v) => { for (x, nm) in v.into_iter().zip(names.iter()) { loc(\"locales\", nm, Ok(x)); } } Err(e) => loc(\"locales\", names[0], Err(e)) } }"
                   % (args, args, tc))
        n += len(chunk)
    # one invocation with a long list: the whole list through each list macro at once
    for chunk in long_lists:
        args = ", ".join('"%s"' % s for s in chunk)
        src.append("    { let names = [%s]; match catch_unwind(AssertUnwindSafe(|| { let v: Vec<LanguageIdentifier> = langids![%s]; v })) { Ok(v) => { if v.len() != names.len() { println!(\"{}\", json!({\"op\":\"macro\",\"m\":\"langids\",\"lit\":[],\"out\":{\"k\":\"panic\"},\"st\":[],\"rt_eq\":false})); } for (x, nm) in v.into_iter().zip(names.iter()) { li(\"langids\", nm, Ok(x)); } } Err(e) => li(\"langids\", names[0], Err(e)) } }"
                   % (args, args))
        src.append("    { let names = [%s]; match catch_unwind(AssertUnwindSafe(|| { let s: &[LanguageIdentifier] = langid_slice![%s,]; s.to_vec() })) { Ok(v) => { if v.len() != names.len() { println!(\"{}\", json!({\"op\":\"macro\",\"m\":\"langid_slice\",\"lit\":[],\"out\":{\"k\":\"panic\"},\"st\":[],\"rt_eq\":false})); } for (x, nm) in v.into_iter().zip(names.iter()) { li(\"langid_slice\", nm, Ok(x)); } } Err(e) => li(\"langid_slice\", names[0], Err(e)) } }"
                   % (args, args))
        src.append("    { let names = [%s]; match catch_unwind(AssertUnwindSafe(|| { let v: Vec<Locale> = locales![%s]; v })) { Ok(v) => { if v.len() != names.len() { println!(\"{}\", json!({\"op\":\"macro\",\"m\":\"locales\",\"lit\":[],\"out\":{\"k\":\"panic\"},\"st\":[],\"rt_eq\":false})); } for (x, nm) in v.into_iter().zip(names.iter()) { loc(\"locales\", nm, Ok(x)); } } Err(e) => loc(\"locales\", names[0], Err(e)) } }"
                   % (args, args))
        n += 3 * len(chunk)
    src.append("}")
    open(os.path.join(d, "src", "main.rs"), "w").write("\n".join(src) + "\n")
    p = subprocess.run(["cargo", "build", "--release", "--offline"], cwd=d, env=cargo_env(tag), stdout=subprocess.PIPE, stderr=subprocess.STDOUT, text=True)
    if p.returncode != 0:
        return {"built": False, "log": p.stdout[-6000:], "invocations": n, "dir": d}
    binp = os.path.join(cargo_env(tag)["CARGO_TARGET_DIR"], "release", name)
    trace = os.path.join(d, "events.ndjson")
    r = subprocess.run([binp], stdout=open(trace, "w"), stderr=subprocess.PIPE)
    return {"built": True, "rc": r.returncode, "trace": trace, "invocations": n, "dir": d}


def lines_of(span, fname):
    out = set()
    if span is None:
        return out
    if span.get("file_name", "").endswith(fname):
        for ln in range(span["line_start"], span["line_end"] + 1):
            out.add(ln)
    exp = span.get("expansion")
    if exp:
        out |= lines_of(exp.get("span"), fname)
    return out


def gen_err_crate(bad, good):
    """bad: list of (macro, literal) that must not compile; good: list of (macro, literal) controls."""
    d = crate_dir("macros_err")
    lines = ["#![allow(unused)]"]
    expect_err, expect_ok = {}, {}
    idx = 0
    for group, reg in ((bad, expect_err), (good, expect_ok)):
        for mac, s in group:
            path = "unic_locale::locale" if mac == "locale" else "unic_langid::" + mac
            lines.append('pub fn f%d() { let _ = %s!("%s"); }' % (idx, path, s))
            reg[len(lines)] = (mac, s)
            idx += 1
    open(os.path.join(d, "src", "lib.rs"), "w").write("\n".join(lines) + "\n")
    p = subprocess.run(["cargo", "build", "--release", "--offline", "--message-format=json"], cwd=d, env=cargo_env(),
                       stdout=subprocess.PIPE, stderr=subprocess.PIPE, text=True)
    err_lines = set()
    nerr = 0
    for l in p.stdout.splitlines():
        try:
            m = json.loads(l)
        except Exception:
            continue
        if m.get("reason") != "compiler-message":
            continue
        msg = m["message"]
        if msg.get("level") != "error":
            continue
        nerr += 1
        for sp in msg.get("spans", []):
            err_lines |= lines_of(sp, "src/lib.rs")
    return {"rc": p.returncode, "err_lines": err_lines, "expect_err": expect_err, "expect_ok": expect_ok, "errors": nerr,
            "stderr": p.stderr[-3000:], "dir": d}
