"""Per-property plans: which models and which traces decide which property, per tier."""
import glob, json, os, subprocess, sys, time
from concurrent.futures import ThreadPoolExecutor
import engine
from engine import Check, run_model, build_harness, ToolError, WORK, REPO, log

ALL = ("likelysubtags", "serde", "macros")

ASSUME_COMMON = [
    "the TLA+ specification in /verif/spec is the reference; TLC checked it against the property's own laws on every state of the bounded models listed under coverage.models",
    "conformance = every enumerated case replayed through the real public API (built from /repo's working tree) and every recorded event accepted by Trace.tla",
    "inputs outside the bounded alphabets/depths are reached only by the seeded random drivers",
]


def data_env():
    """CLDR data for Cldr.tla: the likely-subtags file as it is; the layout files concatenated."""
    d = os.path.join(WORK, "data")
    os.makedirs(d, exist_ok=True)
    lay = os.path.join(d, "layout.ndjson")
    files = sorted(glob.glob(os.path.join(REPO, "unic-langid-impl/data/cldr-misc-full/main/*/layout.json")))
    if not files:
        raise ToolError("no CLDR layout files under %s" % REPO)
    with open(lay, "w") as f:
        for p in files:
            f.write(json.dumps(json.load(open(p))) + "\n")
    env = {"VERIF_LIKELY": os.path.join(REPO, "unic-langid-impl/data/likelySubtags.json"), "VERIF_LAYOUT": lay}
    os.environ.update(env)
    engine.source_dictionary()      # VERIF_DICT: the drivers mix the library's own words into their arguments
    return env


# ------------------------------------------------------------------------------------------------
# model steps
# ------------------------------------------------------------------------------------------------
LI_INV = ["SplitInverse", "ErrorKind", "ValueOK", "NothingDropped", "RoundTrip", "LocaleAgrees", "EmitCase"]
LOC_INV = ["SplitInverse", "ZoneDefined", "ValueOK", "RoundTrip", "NothingDropped", "IdIsPrefixParse", "EmitCase"]
SUB_INV = ["AsciiOnly", "CanonFix", "CaseBlind", "Disjoint", "RawRoundTrip", "NeighbourRejected", "EmitCase"]
OBJ_INV = ["TypeOK", "RoundTrip", "ExtRoundTrip", "ErrorsAndGettersArePure", "ReparseIsNoOp", "EmitHist"]
MATCH_INV = ["Definition", "NoRangeIsEquality", "Symmetric", "Reflexive", "Monotone", "PrivateRule", "EmitCase"]
CMP_INV = ["OrderTotal", "OrderTransitive", "TextInjective", "AbsentSortsFirst", "EmitCase"]
CLDR_INV = ["KeyMaximizesToValue", "Laws", "DirOK", "EmitCase"]
LAWS_INV = ["C07", "C08", "C08Longer", "KeysMaximizeToValues", "DataIndependent"]


def m_langid(c, binp, tier, light=False):
    runs = [("li-full3", dict(Depth=3, FullDepth=3, Small=False, Emit=True))]
    if light:
        runs = [("li-full2", dict(Depth=2, FullDepth=2, Small=False, Emit=True)),
                ("li-small4", dict(Depth=4, FullDepth=2, Small=True, Emit=True))]
    if tier == "thorough":
        runs += [("li-pruned4", dict(Depth=4, FullDepth=2, Small=False, Emit=True)),
                 ("li-small6", dict(Depth=6, FullDepth=3, Small=True, Emit=True))]
    for name, consts in runs:
        c.add_model(run_model("%s-%s" % (c.prop, name), "MC_LangId", consts, LI_INV, binp=binp, workers=10))


def m_locale(c, binp, tier, modes=("loc", "ext"), light=False, deep=False):
    for mode in modes:
        if light:
            runs = [("%s-small4" % mode, dict(Depth=4, FullDepth=2, Alpha="small", Emit=True, Mode=mode))]
        else:
            runs = [("%s-d4" % mode, dict(Depth=4, FullDepth=2, Alpha="full", Emit=True, Mode=mode)),
                    ("%s-small5" % mode, dict(Depth=5, FullDepth=2, Alpha="small", Emit=True, Mode=mode))]
            if mode == "loc":
                # deep: every extension shape needs few distinct tokens but many of them
                runs += [("%s-tiny7" % mode, dict(Depth=7, FullDepth=2, Alpha="tiny", Emit=True, Mode=mode))]
        if tier == "thorough":
            runs += [("%s-d5" % mode, dict(Depth=5, FullDepth=2, Alpha="full", Emit=True, Mode=mode))]
            if mode == "loc" and deep:
                # the deepest enumerations belong to the properties about the grammar itself (C03, C01)
                runs += [("%s-small6" % mode, dict(Depth=6, FullDepth=2, Alpha="small", Emit=True, Mode=mode)),
                         ("%s-tiny9" % mode, dict(Depth=9, FullDepth=2, Alpha="tiny", Emit=True, Mode=mode))]
        for name, consts in runs:
            c.add_model(run_model("%s-%s" % (c.prop, name), "MC_Locale", consts, LOC_INV, binp=binp, workers=12, timeout=10800))


def m_dict(c, binp, tier):
    """both parsers over the words the library's own sources mention (MC_Dict.tla)"""
    words, note, nfiles = engine.source_dictionary()
    if note:
        c.notes.append(note)
    if not words:
        raise ToolError("source dictionary is empty (%d files scanned)" % nfiles)
    c.extra_cov["source_dictionary"] = words
    c.add_model(run_model("%s-dict%d" % (c.prop, 3 if tier == "quick" else 4), "MC_Dict", dict(Depth=3 if tier == "quick" else 4, FullDepth=2),
                          ["ValueOK", "RoundTrip", "LocaleAgrees", "EmitCase"], binp=binp, workers=12, timeout=7200))


def m_long(c, binp, tier):
    """every container size 0..40 (variants, attributes, keywords, tfields, private tags, all together) and an ill-formed
    character at every byte offset of a long identifier (MC_Long.tla)"""
    c.add_model(run_model("%s-long" % c.prop, "MC_Long", dict(MaxN=40 if tier == "quick" else 48), ["Shape", "RoundTrip", "EmitCase"],
                          binp=binp, workers=8, timeout=3600))


def m_iter(c, binp, tier):
    """the streaming readers (cursor semantics, strict = from_bytes, Locale = identifier reader ; extension reader): laws on
    the specification, drift accounting on the implementation (MC_Iter.tla)"""
    runs = [("iter-loc4", dict(Depth=4, Alpha="loc")), ("iter-li3", dict(Depth=3, Alpha="li"))]
    if tier == "thorough":
        runs = [("iter-loc5", dict(Depth=5, Alpha="loc")), ("iter-li4", dict(Depth=4, Alpha="li"))]
    for name, consts in runs:
        res = run_model("%s-%s" % (c.prop, name), "MC_Iter", consts, ["StrictAgrees", "Maximal", "PrefixIsParse", "Compositional", "EmitCase"],
                        binp=binp, workers=10, expect_cases="distinct", timeout=7200)
        c.add_model(res)
        st = res.get("summary", {}).get("stats", {})
        for k, v in st.items():
            if k.startswith("iter_"):
                c.extra_cov[k] = c.extra_cov.get(k, 0) + v
    drift = sum(v for k, v in c.extra_cov.items() if k.startswith("iter_drift"))
    if drift:
        c.notes.append("streaming readers: %d cases differ from MC_Iter.tla's prediction (no listed property names these entry points)" % drift)
    if c.extra_cov.get("iter_api_not_built"):
        c.notes.append("the streaming-reader API did not build; MC_Iter cases were not replayed")


def m_impl(c, binp, tier, replay=True):
    """the parser as implemented, step by step: termination (ranking function) and refinement of the abstract
    automaton are model-checked; the exact predicted outcomes are replayed to count behaviour drift (informational)"""
    runs = [("impl-small5", dict(Depth=5, Alpha="small")), ("impl-tiny7", dict(Depth=7, Alpha="tiny"))]
    if tier == "thorough":
        runs = [("impl-small6", dict(Depth=6, Alpha="small")), ("impl-full5", dict(Depth=5, Alpha="full")), ("impl-tiny8", dict(Depth=8, Alpha="tiny"))]
    for name, consts in runs:
        res = run_model("%s-%s" % (c.prop, name), "MC_Impl", consts, ["Refines", "EmitCase"], properties=["ImplProgress"],
                        binp=binp, workers=12, expect_cases=None, timeout=7200)
        c.add_model(res)
        st = res.get("summary", {}).get("stats", {})
        c.extra_cov["impl_step_model_cases"] = c.extra_cov.get("impl_step_model_cases", 0) + st.get("impl_model_cases", 0)
        c.extra_cov["impl_step_model_agreeing"] = c.extra_cov.get("impl_step_model_agreeing", 0) + st.get("impl_model_agree", 0)
    drift = c.extra_cov.get("impl_step_model_cases", 0) - c.extra_cov.get("impl_step_model_agreeing", 0)
    if drift:
        c.notes.append("behaviour drift: %d cases differ from ImplParser.tla's exact prediction (within what the property allows unless also reported as a violation)" % drift)


def m_subtags(c, binp, tier, light=False):
    runs = [("sub-boundary4", dict(MaxLen=4 if not light else 3, FullLen=4, Alpha="boundary", Emit=True)),
            ("sub-reduced%d" % (7 if tier == "quick" else 9), dict(MaxLen=7 if tier == "quick" else 9, FullLen=2, Alpha="reduced", Emit=True))]
    if not light:
        # every byte value at every position of a short string (one odd byte per string)
        runs += [("sub-oneodd%d" % (4 if tier == "quick" else 5), dict(MaxLen=4 if tier == "quick" else 5, FullLen=0, Alpha="oneodd", Emit=True)),
                 # long subtags: every byte value at every position / two alphanumerics at every pair of positions, rest filled
                 ("sub-fill1", dict(MaxLen=9, FullLen=0, Alpha="fill1", Emit=True)),
                 ("sub-fill2", dict(MaxLen=9, FullLen=0, Alpha="fill2", Emit=True))]
    if tier == "thorough":
        runs += [("sub-all3", dict(MaxLen=3, FullLen=3, Alpha="all", Emit=True))]
    for name, consts in runs:
        c.add_model(run_model("%s-%s" % (c.prop, name), "MC_Subtags", consts, SUB_INV, binp=binp, workers=12, timeout=7200))
    # real words: every language, script and region of the bundled CLDR data, in three casings
    data_env()
    c.add_model(run_model("%s-sub-cldr-words" % c.prop, "MC_SubCldr", {}, ["WordsAreSubtags", "CanonFix", "EmitCase"], binp=binp, workers=4))


def m_object(c, binp, tier, edges=True, hist=True, full=True, parts=("U", "T", "X", "Id"), grown=False):
    if grown:
        # every transition of each container grown to 5..7 members (valid arguments only)
        for part in ("GU", "GK", "GT", "GX"):
            c.add_model(run_model("%s-obj-edges-%s" % (c.prop, part), "MC_Object", dict(Part=part, Mode="edges", K=0, Start="default"),
                                  OBJ_INV, binp=binp, workers=10, expect_cases="transitions"))
    if edges:
        for part in parts:
            for start in (("default", "parsed") if tier == "thorough" or part != "U" else ("default",)):
                c.add_model(run_model("%s-obj-edges-%s-%s" % (c.prop, part, start), "MC_Object",
                                      dict(Part=part, Mode="edges", K=0, Start=start), OBJ_INV, binp=binp, workers=10,
                                      expect_cases="transitions"))
    if hist:
        ks = {"quick": {"U": 3, "T": 4, "X": 5, "Id": 4}, "thorough": {"U": 4, "T": 5, "X": 6, "Id": 5}}[tier]
        for part in parts:
            c.add_model(run_model("%s-obj-hist-%s" % (c.prop, part), "MC_Object",
                                  dict(Part=part, Mode="hist", K=ks[part], Start="parsed"), OBJ_INV, binp=binp, workers=10,
                                  expect_cases="distinct-1"))
    if full:
        c.add_model(run_model("%s-obj-product" % c.prop, "MC_Object", dict(Part="All", Mode="check", K=0, Start="default"),
                              OBJ_INV[:-1], workers=14, replay=False))
        n, depth = (20, 30) if tier == "quick" else (400, 60)
        c.add_model(run_model("%s-obj-sim" % c.prop, "MC_Object", dict(Part="All", Mode="sim", K=depth, Start="parsed"),
                              OBJ_INV, binp=binp, workers=4, simulate="num=%d" % n, expect_cases=None,
                              env_extra={"VERIF_SEED": str(c.seed)}, extra_args=["-depth", str(depth + 2), "-seed", str(c.seed)]))


OBJL_INV = ["TypeOK", "RoundTrip", "LikelyTouchesOnlyTheTriple", "Idempotent", "EmitHist"]


def m_object_likely(c, binp, tier, k_quick=3, k_thorough=5):
    """histories interleaving maximize/minimize with field assignment, over the real table"""
    data_env()
    k = k_quick if tier == "quick" else k_thorough
    for start in ("parsed", "default"):
        if tier == "quick" and start == "default":
            k = min(k, 3)
        c.add_model(run_model("%s-objlikely-%s-k%d" % (c.prop, start, k), "MC_ObjectLikely", dict(K=k, Start=start), OBJL_INV,
                              binp=binp, workers=12, expect_cases="distinct-1", timeout=7200))


def m_matches(c, binp, tier, kind="match"):
    c.add_model(run_model("%s-matches-%s" % (c.prop, kind), "MC_Matches", {"Kind": kind, "Domain": "base"},
                          MATCH_INV if kind == "match" else CMP_INV, binp=binp, workers=10, expect_cases="distinct-108"))
    # near-collision field values (one byte apart, one character longer, numeric regions sharing digits): all 250 000 pairs
    c.add_model(run_model("%s-matches-%s-near" % (c.prop, kind), "MC_Matches", {"Kind": kind, "Domain": "near"},
                          MATCH_INV if kind == "match" else CMP_INV, binp=binp, workers=12, expect_cases="distinct-500"))
    # every pair of languages the library's own sources mention (an alias table maps one code onto another)
    data_env()
    c.add_model(run_model("%s-matches-%s-dict" % (c.prop, kind), "MC_Matches", {"Kind": kind, "Domain": "dict"},
                          MATCH_INV if kind == "match" else CMP_INV, binp=binp, workers=8, expect_cases="noninitial"))


def m_cmp(c, binp, tier):
    routes = {1: 32, 2: 1 + 31 + 31 * 31}
    runs = [(1, "default"), (1, "rich")] if tier == "quick" else [(2, "default"), (1, "rich"), (2, "rich")]
    for n, start in runs:
        c.add_model(run_model("%s-cmp-routes%d-%s" % (c.prop, n, start), "MC_Cmp", {"MaxLen": n, "Start": start},
                              ["TextInjective", "ValuesOK", "AllRouteOpsSucceed", "EmitCase"], binp=binp, workers=12,
                              expect_cases="distinct-%d" % routes[n], timeout=7200))


def m_meta(c, binp, tier):
    data_env()      # VERIF_DICT_TAGS
    runs = [("meta-T2", {"MaxSteps": 2, "SeedSet": "T"}), ("meta-AB2", {"MaxSteps": 2, "SeedSet": "AB"}), ("meta-D2", {"MaxSteps": 2, "SeedSet": "D"}), ("meta-E2", {"MaxSteps": 2, "SeedSet": "E"})]
    if tier == "thorough":
        runs += [("meta-AB3", {"MaxSteps": 3, "SeedSet": "AB"}), ("meta-C2", {"MaxSteps": 2, "SeedSet": "C"}), ("meta-D3", {"MaxSteps": 3, "SeedSet": "D"}),
                 ("meta-E3", {"MaxSteps": 3, "SeedSet": "E"})]
    for name, consts in runs:
        c.add_model(run_model("%s-%s" % (c.prop, name), "MC_Meta", consts, ["SplitAgrees"], properties=["ParseInvariant"],
                              binp=binp, workers=10, expect_cases="transitions"))


def m_parts(c, binp, tier):
    data_env()      # VERIF_DICT
    c.add_model(run_model("%s-parts" % c.prop, "MC_Parts", {"MaxV": 4 if tier == "quick" else 5},
                          ["EqualsParse", "ValueOK", "PartsRoundTrip", "OrderIrrelevant", "EmitCase"], binp=binp, workers=10))


def m_laws(c, tier):
    """all tables over small universes.  The laws are both C07's and C08's (one model checks them together), so the
    thorough tier splits the two larger universes between the two properties: half a million tables each."""
    runs = [("laws-1x2x1-consistent", {"Universe": "1x2x1", "Shape": "consistent"}),
            ("laws-1x2x1-any", {"Universe": "1x2x1", "Shape": "any"})]
    if tier == "thorough":
        runs += [("laws-2x2x1-consistent", {"Universe": "2x2x1", "Shape": "consistent"})] if c.prop == "C07" else \
                [("laws-1x2x2-consistent", {"Universe": "1x2x2", "Shape": "consistent"})]
    for name, consts in runs:
        c.add_model(run_model("%s-%s" % (c.prop, name), "MC_LikelyLaws", consts, LAWS_INV, workers=14, replay=False, timeout=14400))


def m_proofs(c, module="LikelyProofs"):
    """laws proved with TLAPS on the specification, unbounded (spec/LikelyProofs.tla: C07/C08 for every table;
    spec/MatchesProofs.tla: C11 for all values)"""
    res = engine.run_proofs("%s-tlaps" % c.prop, module=module)
    c.add_model(res)
    c.extra_cov["tlaps_obligations_proved"] = res["tlaps"]["obligations_proved"]


def m_cldr(c, binp, tier, modes=("keys", "closure"), tag=""):
    data_env()
    for mode in modes:
        c.add_model(run_model("%s-cldr-%s%s" % (c.prop, mode, tag), "MC_Cldr", {"Mode": mode}, CLDR_INV, binp=binp, workers=12,
                              expect_cases="distinct" if mode == "keys" else None))


SWEEP_INV = ["Uniform", "RelevantSufficient", "KnownIsDeterministic", "CfgReductionSound", "ClassLaws", "DirUniform", "EmitCase"]


def m_sweep(c, binp, tier, parts=("known", "und"), tag="", stride=1):
    """the whole (language, script, region) universe through the real code, decided per equivalence class (MC_Sweep.tla)"""
    data_env()
    for part in parts:
        res = run_model("%s-sweep-%s%s" % (c.prop, part, tag), "MC_Sweep", {"Part": part}, SWEEP_INV, binp=binp, workers=12,
                        expect_cases="sweep", timeout=7200, env_extra={"VERIF_SWEEP_STRIDE": str(stride), "VERIF_SEED": str(c.seed)})
        c.add_model(res)
        if "hang" in res or "abort" in res:
            continue
        st = res.get("summary", {}).get("stats", {})
        if st.get("sweep_universe") != 1 or st.get("sweep_class_missing") or st.get("sweep_class_unreadable") or st.get("sweep_without_universe"):
            raise ToolError("sweep %s: class table incomplete: %s" % (part, {k: v for k, v in st.items() if k.startswith("sweep")}))
        want = st.get("sweep_languages", 0) * st.get("sweep_scripts", 0) * st.get("sweep_regions", 0)
        if not want or st.get("sweep_triples") != want:
            raise ToolError("sweep %s: %s triples swept, universe has %s" % (part, st.get("sweep_triples"), want))
        c.extra_cov["universe_triples_swept"] = c.extra_cov.get("universe_triples_swept", 0) + want
        c.extra_cov.setdefault("sweep_parts", []).append({"part": part + tag, "languages": st.get("sweep_languages"), "scripts": st.get("sweep_scripts"),
                                                            "regions": st.get("sweep_regions"), "classes": st.get("sweep_class", st.get("sweep_dir_class")), "stride": stride})


def m_stateless(c, binp, tier, ops="all", tag=""):
    """sequences of related likely-subtags / direction calls: every call answers as if it were the first (MC_Stateless.tla)"""
    data_env()
    runs = [("stateless-k2", dict(K=2, Ops=ops))]
    if tier == "thorough":
        runs += [("stateless-k3", dict(K=3, Ops=ops))]
    for name, consts in runs:
        c.add_model(run_model("%s-%s%s" % (c.prop, name, tag), "MC_Stateless", consts, ["Stateless", "EmitCase"], binp=binp, workers=10,
                              expect_cases="noninitial", timeout=7200))


def macro_values(c, tier):
    """values built by the compile-time macros are values 'obtained through the safe API' too: each must be == to (and
    hash / print like) the value parsed from the same literal (C12; the full macro programs belong to C16)"""
    import macrogen
    lits = ["und", "UND", "Und-Latn", "und-US", "und-Latn-US-valencia", "en", "EN_us", "sr-Cyrl-RS", "de-1996-1901", "ca-valencia",
            "sl-rozaj-biske-1994", "en-valencia-VALENCIA", "zh-Hant-TW", "es-419", "und-419", "abcdefgh", "abcde-Latn"]
    locs = ["und-u-ca-buddhist", "en-US-u-hc-h12-t-de-h0-hybrid-x-foo", "und-x-a", "en-t-und-Latn", "UND-T-UND-u-attr", "en-u-ca"]
    subs = [("language", "und"), ("language", "UND"), ("language", "en"), ("script", "latn"), ("region", "us"), ("region", "419"),
            ("variant", "VALENCIA"), ("variant", "1abc")]
    ok = macrogen.gen_ok_crate(lits, locs, subs, name="macros_values")
    c.extra_cov["macro_built_values"] = ok["invocations"]
    if not ok["built"]:
        c.dis.append({"props": ["C16"], "what": "well-formed-literals-do-not-compile", "source": "macros_values", "detail": {"log": ok["log"][-3000:]}})
        return
    c.add_trace(engine.validate_trace("%s-macro-values" % c.prop, ok["trace"]))


# ------------------------------------------------------------------------------------------------
# trace steps (impl -> spec)
# ------------------------------------------------------------------------------------------------
def traces(c, binp, driver, tier, quick_n=2500, thorough_n=12000, chunks_q=2, chunks_t=12, tag=""):
    data_env()
    n = quick_n if tier == "quick" else thorough_n
    chunks = chunks_q if tier == "quick" else chunks_t
    d = os.path.join(WORK, "traces")
    os.makedirs(d, exist_ok=True)
    jobs = []
    for k in range(chunks):
        out = os.path.join(d, "%s-%s%s-%d.ndjson" % (c.prop, driver, tag, k))
        try:
            info = engine.run_driver(binp, driver, c.seed * 1000 + k, n, out)
        except engine.DriverDied as e:
            # a crash or hang of the library inside a driver is a totality violation, with the pending call as witness
            if c.prop == "C01":
                c.dis.append({"props": ["C01"], "what": "driver-%s-died-rc%s" % (driver, e.rc), "source": "driver " + driver,
                              "detail": {"pending_call": e.pending[:3000]}, "case": None})
                continue
            raise
        jobs.append((k, out, info))
    def one(job):
        k, out, info = job
        r = engine.validate_trace("%s-trace-%s%s-%d" % (c.prop, driver, tag, k), out)
        r["driver"] = info
        return r
    if not jobs:
        return
    with ThreadPoolExecutor(max_workers=min(len(jobs), 12)) as ex:
        for r in ex.map(one, jobs):
            c.add_trace(r)
            if len(c.samples) < 8:
                try:
                    first = open(os.path.join(d, "%s-%s%s-0.ndjson" % (c.prop, driver, tag))).readline()
                    c.samples.append({"trace_event": first[:400]})
                except Exception:
                    pass


# ------------------------------------------------------------------------------------------------
# the checks
# ------------------------------------------------------------------------------------------------
def C01(tier, seed):
    c = Check("C01", tier, seed)
    binp = build_harness(ALL)
    m_langid(c, binp, tier)
    m_locale(c, binp, tier, deep=True)
    m_subtags(c, binp, tier, light=True)
    m_object(c, binp, tier, edges=True, hist=False, full=False)
    m_cldr(c, binp, tier, modes=("closure",))
    # "never loops": the ranking function of the parser as implemented decreases on every step, for every input (TLAPS)
    m_proofs(c, "ImplProofs")
    # "total for every (language, script, region)": the whole universe (panics are caught per row and reported with the triple)
    m_sweep(c, binp, tier, parts=("und", "dir") if tier == "quick" else ("known", "und", "dir"))
    m_iter(c, binp, tier)          # the streaming readers and the parser:: functions are text-accepting public entry points too
    if tier == "thorough":
        m_impl(c, binp, tier)      # the loop-level progress argument (ranking function) + deep replays
    traces(c, binp, "parse", tier)
    traces(c, binp, "hist", tier, quick_n=1500)
    traces(c, binp, "sub", tier, quick_n=1500)
    # long inputs once more through an UNOPTIMISED build: recursion that the optimiser turns into a loop overflows the stack there
    dev = build_harness(("likelysubtags",), profile="dev")
    traces(c, dev, "deep", tier, quick_n=18, thorough_n=90, chunks_q=1, chunks_t=4, tag="-dev")
    return c.finish(rule="every text-accepting entry point on every enumerated token/byte sequence and operation argument (valid, boundary, invalid) plus seeded random/mutated inputs; outcome must be ok or err (panic location, CPU-time hang and abnormal exit are recorded as data); non-trivial = inputs that got past the first token / operations actually applied",
                    assumptions=ASSUME_COMMON + ["stack overflow / abort are detected as an abnormal exit of the replay process"], exhaustive=False)


def C02(tier, seed):
    c = Check("C02", tier, seed)
    binp = build_harness(ALL)
    m_langid(c, binp, tier)
    m_dict(c, binp, tier)
    m_long(c, binp, tier)
    traces(c, binp, "parse", tier)
    c.require(["li_accepted", "li_rejected"])
    return c.finish(rule="every token sequence over the 67-token boundary alphabet up to the depth bound through from_bytes/FromStr/canonicalize, verdict + error kind + all fields + text compared with ParseLI; non-trivial = accepted identifiers",
                    assumptions=ASSUME_COMMON, exhaustive=True)


def C03(tier, seed):
    c = Check("C03", tier, seed)
    binp = build_harness(ALL)
    m_locale(c, binp, tier, deep=True)
    m_langid(c, binp, tier, light=True)
    m_dict(c, binp, tier)
    m_long(c, binp, tier)
    m_impl(c, binp, tier)
    traces(c, binp, "parse", tier)
    c.require(["zone_accept", "zone_either", "zone_other", "zone_free", "zone_reject", "loc_accepted", "loc_rejected", "ext_from_bytes"])
    return c.finish(rule="every live token sequence over the extension vocabulary (dead prefixes are leaves) through Locale::from_bytes and ExtensionsMap::from_bytes, compared with the zone (accept/either/other/free/reject) and value of ParseLoc; non-trivial = accepted locales",
                    assumptions=ASSUME_COMMON, exhaustive=True)


def C04(tier, seed):
    c = Check("C04", tier, seed)
    binp = build_harness(ALL)
    m_locale(c, binp, tier, modes=("loc",))
    m_langid(c, binp, tier, light=True)
    m_long(c, binp, tier)
    m_parts(c, binp, tier)
    m_object(c, binp, tier, edges=True, hist=False, full=(tier == "thorough"), parts=("T", "X", "Id"), grown=True)
    traces(c, binp, "parse", tier)
    traces(c, binp, "hist", tier, quick_n=2000)
    return c.finish(rule="to_string()/canonicalize() of every value reached by parsing, from_parts and every edge of the mutator machines compared byte for byte with SerLoc of the model value; the spec's canonical text is itself checked to be a strict fixpoint and never longer than the input; trace events re-judge every printed text with the strict recogniser",
                    assumptions=ASSUME_COMMON, exhaustive=True)


def C05(tier, seed):
    c = Check("C05", tier, seed)
    binp = build_harness(ALL)
    m_locale(c, binp, tier, modes=("loc", "ext"), light=(tier == "quick"))
    m_langid(c, binp, tier, light=True)
    m_long(c, binp, tier)
    m_subtags(c, binp, tier, light=True)
    m_parts(c, binp, tier)
    # quick: every edge of every component machine (each reached value is printed and re-read, after a rejected call, on the
    # original, a clone and the rebuilt value); the histories, the product machine and the simulations belong to C10 and to
    # the thorough tier here
    m_object(c, binp, tier, edges=True, hist=(tier == "thorough"), full=(tier == "thorough"), parts=("U", "T", "X", "Id"), grown=True)
    traces(c, binp, "hist", tier, quick_n=2000)
    traces(c, binp, "parse", tier, quick_n=1500)
    return c.finish(rule="every reached value (parsed, from_parts, after every mutation edge/history) is printed and re-parsed by the real code (Locale, ExtensionsMap, LanguageIdentifier, the four subtags) and must come back equal; on the spec, ParseLoc(SerLoc(v)) = v is an invariant of every model and 'reparse' is a no-op action in every reachable state",
                    assumptions=ASSUME_COMMON, exhaustive=True)


def C06(tier, seed):
    c = Check("C06", tier, seed)
    binp = build_harness(ALL)
    m_cldr(c, binp, tier, modes=("keys", "closure"))
    m_sweep(c, binp, tier, parts=("known", "und"))
    m_stateless(c, binp, tier)
    traces(c, binp, "likely", tier, quick_n=3000, thorough_n=40000)
    return c.finish(rule="the WHOLE universe (7142 CLDR languages + und + unknown languages) x (164 CLDR scripts + absent + unknown) x (259 CLDR regions + absent + unknown), about 3.1e8 triples, through likelysubtags::maximize, each triple mapped to its equivalence class and compared with the answer pattern MC_Sweep.tla derives for the class (class partition, representative independence and sufficiency of the relevant sets are invariants TLC checks on the specification); additionally all 8219 CLDR keys plus the closure (every language x {absent, scripts keyed with it, known others, unknown} x same for regions; und x all scripts x all regions) through likelysubtags::maximize and LanguageIdentifier::maximize; allowed answers computed by Maximize over the table TLC loads from data/likelySubtags.json",
                    assumptions=ASSUME_COMMON + ["the universe is the CLDR subtag universe plus representatives of unknown subtags; two subtags outside the data are assumed to behave like any other two (checked on the specification, measured on the code for the representatives swept)"], exhaustive=True)


def C07(tier, seed):
    c = Check("C07", tier, seed)
    binp = build_harness(ALL)
    m_proofs(c)
    m_laws(c, tier)
    m_cldr(c, binp, tier, modes=("closure",))
    m_object_likely(c, binp, tier)
    traces(c, binp, "hist", tier, quick_n=2500)
    traces(c, binp, "likely", tier, quick_n=1500)
    return c.finish(rule="the laws (only adds, fills all three, false=>unchanged, idempotent) are PROVED with TLAPS for the specification's Maximize over every table whose values are full triples (LikelyProofs.tla; the premise is checked on the CLDR data by MC_Cldr and on the compiled tables by C18); laws (only adds, fills all three, false=>unchanged, idempotent) model-checked for every table over small subtag universes incl. unknown subtags; on the real table every closure triple is run through the library with variants and extensions attached and compared before/after/twice; maximize steps inside random histories are validated by Trace.tla",
                    assumptions=ASSUME_COMMON, exhaustive=True)


def C08(tier, seed):
    c = Check("C08", tier, seed)
    binp = build_harness(ALL)
    m_proofs(c)
    m_laws(c, tier)
    m_cldr(c, binp, tier, modes=("closure",))
    m_sweep(c, binp, tier, parts=("known", "und"))
    m_stateless(c, binp, tier)
    m_object_likely(c, binp, tier)
    traces(c, binp, "hist", tier, quick_n=2500)
    traces(c, binp, "likely", tier, quick_n=1500)
    return c.finish(rule="meaning preservation, no foreign subtag, at most one of script/region, first-of-{l, l-r, l-s}, idempotence and minimize.maximize = minimize are PROVED with TLAPS for the specification's Minimize over every table (LikelyProofs.tla); the whole 3.1e8-triple universe through likelysubtags::minimize compared per equivalence class with the pattern of MinimizeF (MC_Sweep.tla; the laws hold for the representative of every class on the specification); minimize laws (meaning preserved, no foreign subtag, first of {l, l-r, l-s}, idempotent, min.max=min, never longer) model-checked for every table over small universes; on the real table every closure triple through likelysubtags::minimize and the method, compared with MinimizeF",
                    assumptions=ASSUME_COMMON, exhaustive=True)


def C09(tier, seed):
    c = Check("C09", tier, seed)
    binp = build_harness(ALL)
    m_meta(c, binp, tier)
    traces(c, binp, "meta", tier, quick_n=4000)
    return c.finish(rule="transition system whose actions are the meaning-preserving transformations (separator, case, swap/duplicate variants and attributes, swap keyword/tfield groups, swap -u-/-t-); every transition within the step bound from well-formed and ill-formed seeds is replayed: both texts through both parsers, verdict/value/text must agree; random pairs are judged equivalent by the spec before the implementation is required to agree",
                    assumptions=ASSUME_COMMON, exhaustive=True)


def C10(tier, seed):
    c = Check("C10", tier, seed)
    binp = build_harness(ALL)
    m_object(c, binp, tier, edges=True, hist=True, full=True, grown=True)
    m_object_likely(c, binp, tier, k_quick=4)
    c.require(["op_" + o for o in ["set_language", "clear_language", "set_script", "clear_script", "set_region", "clear_region",
               "set_variants", "clear_variants", "has_variant", "set_keyword", "remove_keyword", "clear_keywords", "keyword",
               "set_attribute", "remove_attribute", "has_attribute", "clear_attributes", "set_tlang", "clear_tlang", "set_tfield",
               "remove_tfield", "clear_tfields", "tfield", "add_tag", "remove_tag", "has_tag", "clear_tags", "maximize", "minimize",
               "reparse"]])
    traces(c, binp, "hist", tier, quick_n=3000, thorough_n=20000)
    return c.finish(rule="LocaleObject.tla: every edge of the four component machines (arguments valid/boundary/invalid), every history up to K operations, the full product machine (invariants), simulated long behaviours, and seeded random histories of up to 60 operations from default() and parsed values; result, projection, text and is_empty compared after every step; non-trivial = operations applied",
                    assumptions=ASSUME_COMMON, exhaustive=True)


def C11(tier, seed):
    c = Check("C11", tier, seed)
    binp = build_harness(ALL)
    m_proofs(c, "MatchesProofs")
    m_matches(c, binp, tier, "match")
    traces(c, binp, "match", tier, quick_n=3000)
    traces(c, binp, "hist", tier, quick_n=2000)
    return c.finish(rule="108 identifiers squared x 9 extension settings x 4 flag pairs through Locale::matches, LanguageIdentifier::matches (also against a Locale via AsRef) and Language::matches; the definition and its laws are invariants of the model and are PROVED with TLAPS for all values (MatchesProofs.tla)",
                    assumptions=ASSUME_COMMON, exhaustive=True)


def C12(tier, seed):
    c = Check("C12", tier, seed)
    binp = build_harness(ALL)
    m_proofs(c, "OrderProofs")
    m_long(c, binp, tier)          # == &str, round trip and Locale agreement for identifiers of every length up to ~300 bytes
    m_matches(c, binp, tier, "cmp")
    m_cmp(c, binp, tier)
    # "comparing a subtag with a &str is true iff the string equals its canonical text": the subtag cases (every CLDR word,
    # short strings over the boundary bytes), each compared with its own text and with its neighbours (NUL-padded, re-cased,
    # extended, shortened)
    data_env()
    c.add_model(run_model("%s-sub-cldr-words" % c.prop, "MC_SubCldr", {}, ["WordsAreSubtags", "CanonFix", "EmitCase"], binp=binp, workers=4))
    c.add_model(run_model("%s-sub-boundary3" % c.prop, "MC_Subtags", dict(MaxLen=3, FullLen=3, Alpha="boundary", Emit=True), SUB_INV, binp=binp, workers=12))
    c.add_model(run_model("%s-sub-reduced7" % c.prop, "MC_Subtags", dict(MaxLen=7, FullLen=2, Alpha="reduced", Emit=True), SUB_INV, binp=binp, workers=12))
    traces(c, binp, "hist", tier, quick_n=3000)
    macro_values(c, tier)
    return c.finish(rule="the specification's order on language identifiers is PROVED (TLAPS, OrderProofs.tla, all values) to be a strict total order consistent with equality; all pairs over the 108x3 product domain (==, cmp both ways, hash, == &str, field-by-field order incl. transitivity on the spec) and all pairs of operation routes from default() (same logical value along different routes); random pairs from histories",
                    assumptions=ASSUME_COMMON, exhaustive=True)


def C13(tier, seed):
    c = Check("C13", tier, seed)
    binp = build_harness(ALL)
    m_langid(c, binp, tier)
    m_dict(c, binp, tier)
    m_long(c, binp, tier)
    m_locale(c, binp, tier, modes=("loc",))
    m_iter(c, binp, tier)
    macro_values(c, tier)          # a Locale built by locale! converts to the LanguageIdentifier its literal parses to
    return c.finish(rule="every language-identifier case also through Locale (identical id, no extensions, same text, conversions both ways, AsRef); every accept-zone locale case: id = LanguageIdentifier of the text before the first singleton",
                    assumptions=ASSUME_COMMON, exhaustive=True)


def C14(tier, seed):
    c = Check("C14", tier, seed)
    on = build_harness(ALL)
    off = build_harness(("serde", "macros"))
    m_cldr(c, on, tier, modes=("dir",), tag="-likely-on")
    m_cldr(c, off, tier, modes=("dir",), tag="-likely-off")
    m_sweep(c, on, tier, parts=("dir",), tag="-likely-on")
    m_sweep(c, off, tier, parts=("dir",), tag="-likely-off")
    # sequences of related calls: every call answers as if it were the first (maximize / minimize calls in between count too)
    m_stateless(c, on, tier, ops="all", tag="-likely-on")
    m_stateless(c, off, tier, ops="dir", tag="-likely-off")
    traces(c, on, "likely", tier, quick_n=2000, tag="-on")
    traces(c, off, "likely", tier, quick_n=2000, tag="-off")
    return c.finish(rule="every identifier of the 3.1e8-triple universe through character_direction() in both configurations, compared per (language class, script class) with the directions AllowedDir permits (MC_Sweep.tla, part dir); all 709 CLDR layout locales and script/language/region probes through character_direction() in both feature configurations (two harness builds); allowed directions derived in TLA+ from the layout files",
                    assumptions=ASSUME_COMMON, exhaustive=True)


def C15(tier, seed):
    c = Check("C15", tier, seed)
    binp = build_harness(ALL)
    m_subtags(c, binp, tier)
    traces(c, binp, "sub", tier, quick_n=3000)
    c.require(["sub_Language", "raw_language", "raw_script", "raw_region", "raw_variant"])
    return c.finish(rule="every byte string over the boundary byte alphabet up to length 4, alnum-pruned strings up to length 7/9 (thorough: all 16.8M strings of length <= 3) through from_bytes/FromStr of all four types; verdict, as_str, Display, == &str",
                    assumptions=ASSUME_COMMON, exhaustive=True)


def C17(tier, seed):
    c = Check("C17", tier, seed)
    binp = build_harness(ALL)
    m_parts(c, binp, tier)
    m_object(c, binp, tier, edges=False, hist=False, full=False, grown=True)    # into_parts / from_parts on every state of the grown containers
    m_subtags(c, binp, tier)
    m_locale(c, binp, tier, modes=("loc",), light=True)
    traces(c, binp, "hist", tier, quick_n=2000)
    return c.finish(rule="from_parts over every sequence of <= 4/5 variants (any order, repeats, any case) vs parsing the joined string; into_parts/from_parts on every parsed and mutated value incl. the Locale extension string; integer forms of every enumerated valid subtag: expected little-endian packing, unchecked round trip, injectivity over the run",
                    assumptions=ASSUME_COMMON, exhaustive=True)


def C19(tier, seed):
    c = Check("C19", tier, seed)
    binp = build_harness(ALL)
    m_langid(c, binp, tier)
    m_long(c, binp, tier)
    return c.finish(rule="every language-identifier case as a JSON string (plain and fully \\u-escaped) through serde_json::from_str and from_value; accepted values serialised and read back; a fixed list of non-string JSON documents",
                    assumptions=ASSUME_COMMON, exhaustive=True)


PLANS = {"C01": C01, "C02": C02, "C03": C03, "C04": C04, "C05": C05, "C06": C06, "C07": C07, "C08": C08, "C09": C09,
         "C10": C10, "C11": C11, "C12": C12, "C13": C13, "C14": C14, "C15": C15, "C17": C17, "C19": C19}


def replay(prop, path):
    """re-run the recorded failing cases through the current build"""
    binp = build_harness(ALL)
    data = json.load(open(path))
    lines = [e["case"] for e in data.get("examples", []) if e.get("case")]
    if not lines:
        print("replay file has no raw cases; see its 'examples'")
        return 2
    out = os.path.join(WORK, "replay-out.ndjson")
    p = subprocess.run([binp, "replay", "--out", out], input="\n".join(lines) + "\n", text=True, stdout=subprocess.PIPE)
    still = []
    if os.path.exists(out):
        for l in open(out):
            d = json.loads(l)
            print(json.dumps(d)[:1500])
            if prop in d.get("props", []):
                still.append(d)
    if still:
        print("VIOLATION property=%s replay=%s" % (prop, path))
        return 1
    print("replayed %d cases: no disagreement on %s" % (len(lines), prop))
    return 0


# ------------------------------------------------------------------------------------------------
# C18: compiled tables
# ------------------------------------------------------------------------------------------------
def _norm_rs(text):
    import re
    s = re.sub(r"\s+", "", text)
    return s.replace(",]", "]").replace(",)", ")")


def _consts_as_sets(text):
    """name -> sorted list of integer literals, for the layout table (the generator's order is a HashSet's)"""
    import re
    out = {}
    for m in re.finditer(r"pub const (\w+): \[u\d+; (\d+)\]\s*=\s*\[([^\]]*)\]", text):
        nums = sorted(int(x) for x in re.findall(r"\d+", m.group(3)))
        out[m.group(1)] = (int(m.group(2)), nums)
    return out


def C18(tier, seed):
    c = Check("C18", tier, seed)
    binp = build_harness(ALL)
    data_env()
    dump = os.path.join(WORK, "data", "tables.ndjson")
    p = subprocess.run([binp, "tables"], stdout=open(dump, "w"), stderr=subprocess.PIPE)
    if p.returncode != 0:
        raise ToolError("table dump failed: %s" % p.stderr.decode()[-500:])
    r = engine.validate_trace("C18-tables", dump, module="Tables", env_extra={"VERIF_TABLES": dump})
    c.add_trace(r)
    c.samples.append({"table_entry": open(dump).readlines()[5][:300]})
    # supplementary: the repository's own generators, re-run from the working tree
    env = dict(os.environ, CARGO_TARGET_DIR=os.path.join(WORK, "target-gen"), CARGO_NET_OFFLINE="true")
    cwd = os.path.join(REPO, "unic-langid-impl")
    gen = {}
    for b in ("generate_likelysubtags", "generate_layout"):
        g = subprocess.run(["cargo", "run", "--offline", "--release", "--features", "binary", "--bin", b], cwd=cwd, env=env,
                           stdout=subprocess.PIPE, stderr=subprocess.PIPE, text=True)
        if g.returncode != 0:
            raise ToolError("generator %s failed: %s" % (b, g.stderr[-1500:]))
        gen[b] = g.stdout
    checked_in = open(os.path.join(cwd, "src/likelysubtags/tables.rs")).read()
    if _norm_rs(gen["generate_likelysubtags"]) != _norm_rs(checked_in):
        c.dis.append({"props": ["C18"], "what": "generator-output-differs-likelysubtags", "source": "generate_likelysubtags",
                      "detail": {"note": "re-running the repository's generator on data/likelySubtags.json does not reproduce src/likelysubtags/tables.rs"}})
    a, b2 = _consts_as_sets(gen["generate_layout"]), _consts_as_sets(open(os.path.join(cwd, "src/layout_table.rs")).read())
    if a != b2 or not a:
        c.dis.append({"props": ["C18"], "what": "generator-output-differs-layout", "source": "generate_layout",
                      "detail": {"generated": {k: v[0] for k, v in a.items()}, "checked_in": {k: v[0] for k, v in b2.items()}}})
    c.extra_cov["generators_rerun"] = 2
    c.extra_cov["table_entries"] = r["events"]
    return c.finish(rule="every entry of the six likely-subtags tables and the four direction tables (dumped from the compiled statics through the cfg(unic_locale_verif) re-export) is one state of Tables.tla: decodes to canonical subtags, strictly increasing in integer key order, equals the entry derived in TLA+ from the JSON data; whole-dump set equality; both generators re-run and diffed",
                    assumptions=ASSUME_COMMON, exhaustive=True)


PLANS["C18"] = C18


# ------------------------------------------------------------------------------------------------
# C20: features are additive
# ------------------------------------------------------------------------------------------------
FEATURE_SETS = [(), ("likelysubtags",), ("serde",), ("macros",), ("likelysubtags", "serde"), ("likelysubtags", "macros"),
                ("serde", "macros"), ("likelysubtags", "serde", "macros")]


def C20(tier, seed):
    c = Check("C20", tier, seed)
    data_env()
    n = 1500 if tier == "quick" else 8000
    d = os.path.join(WORK, "traces")
    os.makedirs(d, exist_ok=True)
    drivers = ["parse", "hist-nolikely", "meta", "sub", "match", "likely"]
    logs = {}
    for fs in FEATURE_SETS:
        binp = build_harness(fs)
        feats = json.loads(subprocess.run([binp, "features"], stdout=subprocess.PIPE, text=True).stdout)
        for f in ("likelysubtags", "serde", "macros"):
            if feats[f] != (f in fs):
                raise ToolError("harness built with features %s reports %s" % (fs, feats))
        for drv in drivers:
            out = os.path.join(d, "C20-%s-%s.ndjson" % ("_".join(fs) or "none", drv))
            engine.run_driver(binp, drv, seed, n, out)
            if drv == "likely":
                # the likely-subtags API itself is the additive part; direction events are compared
                lines = [l for l in open(out) if '"op":"dir"' in l]
                open(out, "w").writelines(lines)
            logs[(fs, drv)] = out
    jobs = []
    for fs in FEATURE_SETS[1:]:
        for drv in drivers:
            jobs.append((fs, drv, logs[(fs, drv)], logs[((), drv)]))
    def one(job):
        fs, drv, a, b = job
        r = engine.validate_trace("C20-pair-%s-%s" % ("_".join(fs), drv), a, module="TracePair", env_extra={"TRACE_A": a, "TRACE_B": b})
        return r
    with ThreadPoolExecutor(max_workers=10) as ex:
        for r in ex.map(one, jobs):
            c.add_trace(r)
    # each configuration's own transcript is also a behaviour of the specification
    for fs in (FEATURE_SETS[0], FEATURE_SETS[-1]) if tier == "quick" else FEATURE_SETS:
        for drv in ("parse", "hist-nolikely"):
            c.add_trace(engine.validate_trace("C20-spec-%s-%s" % ("_".join(fs) or "none", drv), logs[(fs, drv)]))
    c.samples.append({"pair": "transcript of features=%s vs no features, driver parse" % (FEATURE_SETS[-1],),
                      "first_event": open(logs[((), "parse")]).readline()[:300]})
    c.extra_cov["feature_sets"] = ["+".join(fs) or "none" for fs in FEATURE_SETS]
    return c.finish(rule="the same seeded drivers (parse, histories, metamorphic pairs, subtags, direction) run under all 8 feature sets of the facade+impl crates; each transcript is stepped in lock-step against the no-feature transcript by TracePair.tla: events identical, direction events related by the documented refinement; transcripts are also validated against Trace.tla",
                    assumptions=ASSUME_COMMON + ["features reach the impl crates through the facades' feature forwarding, as a downstream user enables them"], exhaustive=False)


PLANS["C20"] = C20


# ------------------------------------------------------------------------------------------------
# C16: compile-time macros equal run-time parsing
# ------------------------------------------------------------------------------------------------
def C16(tier, seed):
    import macrogen, random
    c = Check("C16", tier, seed)
    data_env()
    build_harness(ALL)
    rnd = random.Random(seed)
    cap = 400 if tier == "quick" else 2500
    # the specification decides which literal is well formed and what it means
    info1, li_cases = engine.collect_cases("C16-lits-li", "MC_LangId", dict(Depth=3, FullDepth=1, Small=False, Emit=True), LI_INV, workers=10)
    info2, loc_cases = engine.collect_cases("C16-lits-loc", "MC_Locale", dict(Depth=5, FullDepth=2, Alpha="small", Emit=True, Mode="loc"), LOC_INV)
    info3, sub_cases = engine.collect_cases("C16-lits-sub", "MC_Subtags", dict(MaxLen=4, FullLen=2, Alpha="reduced", Emit=True), SUB_INV)
    for nm, info in (("C16-lits-li", info1), ("C16-lits-loc", info2), ("C16-lits-sub", info3)):
        c.models.append({"name": nm, "module": nm, "constants": {}, "tlc": info, "wall_s": 0, "disagreements": []})
    def text_of(case):
        toks = case["toks"]
        bs = []
        for i, t in enumerate(toks):
            if i:
                bs.append(0x2d)
            bs += t
        return bs
    li_ok, li_bad, loc_ok, loc_bad = [], [], [], []
    for cs in li_cases:
        bs = text_of(cs)
        if not macrogen.printable(bs):
            continue
        (li_ok if cs["li"]["ok"] else li_bad).append(macrogen.lit(bs))
    for cs in loc_cases:
        bs = text_of(cs)
        if not macrogen.printable(bs):
            continue
        z = cs["loc"]["zone"]
        if z == "accept":
            loc_ok.append(macrogen.lit(bs))
        elif z == "reject":
            loc_bad.append(macrogen.lit(bs))
    # odd case and '_' separators: the spec is case/separator blind (checked in MC_Meta), the macros must be too
    def noisy(s):
        return "".join((ch.upper() if rnd.random() < 0.3 else ch) if ch != "-" else ("_" if rnd.random() < 0.3 else "-") for ch in s)
    sub_ok, sub_bad = [], []
    kinds = ["language", "script", "region", "variant"]
    for cs in sub_cases:
        if not macrogen.printable(cs["s"]) or not cs["s"]:
            continue
        for i, k in enumerate(kinds):
            (sub_ok if cs["is"][i] else sub_bad).append((k, macrogen.lit(cs["s"])))
    def pick(xs, n):
        xs = sorted(set(xs))
        rnd.shuffle(xs)
        return xs[:n]
    # every shape equally: literals with two or more variants are as likely to be drawn as bare languages
    def nvar(s):
        return sum(1 for t in s.split("-")[1:] if len(t) >= 5 or (len(t) == 4 and t[0].isdigit()))
    li_ok_s = pick([s for s in li_ok if nvar(s) >= 2], cap // 2) + pick([s for s in li_ok if nvar(s) < 2], cap // 2)
    # the compiled form stores integers: text order and integer (little-endian) order of variants differ for these
    li_ok_s += ["und", "UND", "en_US", "eN-lAtN-uS-VaLeNcIa", "und-Latn", "sr-Cyrl-RS-1abc-valencia", "sl-rozaj-nedis", "sl-nedis-rozaj-1994",
                "de-1996-1901", "ca-valencia-fonipa-alalc97", "en-basiceng-aaaaz-zaaaa"]
    loc_ok_s = pick(loc_ok, cap)
    # private-use tags that look like singletons or sort after 'x'; repeated variants in front of extensions
    loc_ok_s += ["en-x-abc-x-xyz", "und-x-x-y", "en-x-x", "en-x-u-t-x-zz", "en-x-t-en-u-ca-x-zzz", "en-u-ca-x-x-u-z", "en-t-h0-x1x-x-t-x-zzz",
                 "en-valencia-valencia-u-ca-buddhist", "en-US-valencia-VALENCIA-t-h0-hybrid-x-a", "sl-rozaj-1994-rozaj-u-foo-foo-x-b-a-b",
                 "en-1abc-valencia-1abc-t-de-1996-1996-h0-hybrid"]
    loc_ok_s += [noisy(s) for s in loc_ok_s[: cap // 4]] + ["und", "en-t-h0-hybrid-u-ca-buddhist-x-foo", "en_US_u_hc_h12",
                                                          "und-t-und-h0-hybrid", "en-u-ca-islamic-civil-t-de-AT-1996-k0-dvorak-x-a-b-c"]
    li_ok_s += [noisy(s) for s in li_ok_s[: cap // 4]]
    sub_ok_s = pick(sub_ok, cap // 2) + [("language", "und"), ("language", "UND"), ("script", "lATN"), ("region", "us"), ("variant", "1ABC")]
    # long lists (inline capacities, counters): 9..14 and around 16/32 members per unordered part, with repeats and odd case
    def rw(lo, hi, alpha="abcdefghijklmnopqrstuvwxyz0123456789"):
        return "".join(rnd.choice(alpha) for _ in range(rnd.randint(lo, hi)))
    def variants(k):
        vs = []
        while len(vs) < k:
            v = rw(5, 8) if rnd.random() < 0.7 else rnd.choice("0123456789") + rw(3, 3)
            if v not in vs:
                vs.append(v)
        return vs
    for k in (9, 10, 12, 14, 17, 33):
        vs = variants(k)
        li_ok_s.append("sl-" + "-".join(vs + [vs[0], vs[k // 2]]))
        li_ok_s.append(noisy("de-Latn-AT-" + "-".join(vs)))
        attrs = [rw(3, 8) for _ in range(k)]
        loc_ok_s.append("en-u-" + "-".join(attrs + [attrs[1]]))
        keys = sorted({rnd.choice("abcdefghijklmnopqrstuvwxyz0123456789") + rnd.choice("abcdefghijklmnopqrstuvwxyz") for _ in range(3 * k)})[:k]
        loc_ok_s.append(noisy("en-US-u-" + "-".join(kk + "-" + rw(3, 8) for kk in reversed(keys)) + "-t-" + "-".join("de-" + v for v in vs[:1])
                              + "-" + "-".join("abcdefghij"[i] + str(rnd.randint(0, 9)) + "-" + rw(3, 8) for i in range(min(k, 10))) + "-x-" + "-".join(rw(1, 8) for _ in range(k))))
    # real words: every two-letter language of the CLDR data (retired codes such as iw / in / ji are keys of their own), a
    # sample of the longer ones, every script and a sample of regions attached; and the words the library's own sources
    # mention (a code the implementation, or one feature configuration of it, treats specially), in the positions they fit
    cl = json.load(open(os.environ["VERIF_LIKELY"]))["supplemental"]["likelySubtags"]
    c_langs, c_scripts, c_regions = set(), set(), set()
    for k, v in cl.items():
        for t in k.split("-") + v.split("-"):
            (c_scripts if len(t) == 4 else c_regions if (len(t) == 2 and t.isupper()) or t.isdigit() else c_langs).add(t)
    words, _, _ = engine.source_dictionary()
    import re as _re
    d_langs = [w for w in words if _re.fullmatch(r"[A-Za-z]{2,3}|[A-Za-z]{5,8}", w)]
    d_scripts = [w for w in words if _re.fullmatch(r"[A-Za-z]{4}", w)]
    d_regions = [w for w in words if _re.fullmatch(r"[A-Za-z]{2}|[0-9]{3}", w)]
    d_variants = [w for w in words if _re.fullmatch(r"[A-Za-z0-9]{5,8}|[0-9][A-Za-z0-9]{3}", w)]
    two = sorted(l for l in c_langs if len(l) == 2)
    longer = sorted(l for l in c_langs if len(l) != 2)
    rnd.shuffle(longer)
    real_li = two + longer[: (60 if tier == "quick" else 600)] + d_langs
    sc, rg = sorted(c_scripts) + d_scripts, sorted(c_regions) + d_regions
    real_li += ["%s-%s" % (rnd.choice(two), x) for x in sc] + ["%s-%s" % (rnd.choice(two + d_langs), x) for x in rg[:: (4 if tier == "quick" else 1)]]
    real_li += ["%s-%s-%s" % (l, rnd.choice(sc), rnd.choice(rg)) for l in d_langs] + ["en-%s" % v for v in d_variants]
    real_loc = ["%s-u-ca-buddhist" % l for l in d_langs + two[::9]] + ["en-t-%s-h0-hybrid" % l for l in d_langs + two[::9]]
    real_sub = [("language", l) for l in d_langs] + [("script", x) for x in d_scripts] + [("region", x) for x in d_regions] + [("variant", x) for x in d_variants]
    li_ok_s += real_li
    loc_ok_s += real_loc
    sub_ok_s += real_sub
    # one invocation of each list macro with a long list (expansion depth grows with the list in a recursive macro)
    long_lists = [sorted(set(two))[:150], (sorted(set(two)) + ["%s-Latn" % l for l in two])[: (300 if tier == "quick" else 700)]]
    ok = macrogen.gen_ok_crate(li_ok_s, loc_ok_s, sub_ok_s, long_lists=long_lists)
    c.extra_cov["programs"] = 3
    c.extra_cov["macro_invocations_wellformed"] = ok["invocations"]
    # the same program in the other extreme feature configuration: the macros run at build time in a host build of the
    # parser, the comparison runs in the target build; the two must agree whatever features the target has
    all_feats = ("macros", "likelysubtags", "serde")
    ok2 = macrogen.gen_ok_crate(li_ok_s[:: (3 if tier == "quick" else 1)] + real_li, loc_ok_s[:: (3 if tier == "quick" else 1)] + real_loc, sub_ok_s[::3] + real_sub,
                                features=all_feats, name="macros_ok_allfeatures")
    c.extra_cov["macro_invocations_wellformed_all_features"] = ok2["invocations"]
    for tag, okx in (("", ok), ("-all-features", ok2)):
        if not okx["built"]:
            c.dis.append({"props": ["C16"], "what": "well-formed-literals-do-not-compile" + tag, "source": "macros_ok" + tag,
                          "detail": {"log": okx["log"][-3000:]}})
        else:
            if okx["rc"] != 0:
                c.dis.append({"props": ["C16", "C01"], "what": "macro-program-died" + tag, "source": "macros_ok" + tag, "detail": {"rc": okx["rc"]}})
            r = engine.validate_trace("C16-macro-events" + tag, okx["trace"])
            c.add_trace(r)
            c.samples.append({"macro_event": open(okx["trace"]).readline()[:300]})
    # ill-formed literals: a compile error at that invocation, and only there
    bad = [("langid", s) for s in pick(li_bad, cap // 2)] + [("locale", s) for s in pick(loc_bad, cap // 2)]
    bad += [({"language": "lang"}.get(k, k), s) for k, s in pick(sub_bad, cap // 4)]
    good = [("langid", s) for s in li_ok_s[:20]] + [("locale", s) for s in loc_ok_s[:20]]
    er = macrogen.gen_err_crate(bad, good)
    c.extra_cov["macro_invocations_illformed"] = len(bad)
    c.extra_cov["compile_errors_reported"] = er["errors"]
    missing = [(ln, v) for ln, v in er["expect_err"].items() if ln not in er["err_lines"]]
    spurious = [(ln, v) for ln, v in er["expect_ok"].items() if ln in er["err_lines"]]
    if er["rc"] == 0 and bad:
        c.dis.append({"props": ["C16"], "what": "ill-formed-literals-compile", "source": "macros_err", "detail": {"count": len(bad)}})
    for ln, (mac, s) in missing[:20]:
        c.dis.append({"props": ["C16"], "what": "no-compile-error-at-ill-formed-%s" % mac, "source": "macros_err",
                      "detail": {"macro": mac, "literal": s, "line": ln}})
    for ln, (mac, s) in spurious[:20]:
        c.dis.append({"props": ["C16"], "what": "compile-error-at-well-formed-%s" % mac, "source": "macros_err",
                      "detail": {"macro": mac, "literal": s, "line": ln}})
    c.samples.append({"ill_formed_literal": bad[0] if bad else None, "compile_error_lines": len(er["err_lines"])})
    return c.finish(level="model_checking",
                    rule="literals and their meaning come from the TLC case streams (language-identifier, locale and subtag models, printable subset, plus odd-case/underscore variants); program A evaluates langid!/lang!/script!/region!/variant!/locale!/langids!/langid_slice!/locales! on well-formed literals and its events are validated by Trace.tla against ParseLI/ParseLoc; program B holds ill-formed literals one per line and must produce a compiler error attributed (through the diagnostic's expansion chain) to every such line and to no control line",
                    assumptions=ASSUME_COMMON + ["compile errors are observed through cargo's JSON diagnostics; TLC sees only their outcome"],
                    exhaustive=False)


PLANS["C16"] = C16
