"""Per-property plans: which models and which traces decide which property, per tier."""
import json, os, subprocess, sys
import engine
from engine import Check, run_model, build_harness, ToolError

LI_INV = ["SplitInverse", "ErrorKind", "ValueOK", "NothingDropped", "RoundTrip", "LocaleAgrees", "EmitCase"]

ASSUME_COMMON = [
    "the TLA+ specification in /verif/spec is the reference; TLC checked it against the property's own laws on the bounded model",
    "conformance is by replaying every enumerated case through the real API built from /repo's working tree",
    "inputs outside the bounded alphabets/depths are covered only by the random trace drivers",
]


def m_langid(c, binp, tier, tag=""):
    """language-identifier token sequences (C02, C13, C19, C01, C04, C05)"""
    if tier == "quick":
        runs = [("li-full3", dict(Depth=3, FullDepth=3, Small=False, Emit=True))]
    else:
        runs = [("li-full3", dict(Depth=3, FullDepth=3, Small=False, Emit=True)),
                ("li-pruned4", dict(Depth=4, FullDepth=2, Small=False, Emit=True)),
                ("li-small6", dict(Depth=6, FullDepth=3, Small=True, Emit=True))]
    for name, consts in runs:
        c.add_model(run_model("%s-%s%s" % (c.prop, name, tag), "MC_LangId", consts, LI_INV, binp=binp, workers=10))


def C02(tier, seed):
    c = Check("C02", tier, seed)
    binp = build_harness()
    m_langid(c, binp, tier)
    return c.finish(rule="every token sequence over the boundary token alphabet up to the depth bound; non-trivial = accepted by the language-identifier parser",
                    assumptions=ASSUME_COMMON, exhaustive=True)


PLANS = {"C02": C02}


def replay(prop, path):
    """re-run the recorded failing cases through the current build"""
    binp = build_harness()
    data = json.load(open(path))
    lines = [e["case"] for e in data.get("examples", []) if e.get("case")]
    if not lines:
        print("replay file has no raw cases (trace mismatch?); see its 'examples'")
        return 2
    p = subprocess.run([binp, "replay", "--out", "/dev/stdout"], input="\n".join(lines) + "\n", text=True, stdout=subprocess.PIPE)
    print(p.stdout)
    bad = [l for l in p.stdout.splitlines() if l.startswith("{\"case\"") or '"props"' in l]
    still = [l for l in bad if prop in json.loads(l).get("props", [])] if bad else []
    if still:
        print("VIOLATION property=%s replay=%s" % (prop, path))
        return 1
    return 0
