"""Orchestrator for the model-based checks (see DESIGN.md section 8).

A check for property X is a *plan*: a list of steps, each either
  model(...)   TLC enumerates a bounded model of the specification, checks the spec-level
               invariants, and prints one case per state; the cases are piped straight into the
               Rust harness, which replays them through the real API (spec -> impl);
  trace(...)   a Rust driver runs the real API and logs events; TLC validates the log against
               Trace.tla (impl -> spec).
Every disagreement carries the set of properties it violates; the check for X reports those that
name X.  Exit 0 = held, 1 = VIOLATION (with replay file), 2 = tool error.
"""
import json, os, re, shutil, subprocess, sys, time, hashlib

VERIF = os.path.dirname(os.path.dirname(os.path.abspath(__file__)))
REPO = os.environ.get("VERIF_REPO", "/repo")
WORK = os.path.join(VERIF, "work")
SPEC = os.path.join(VERIF, "spec")
HARNESS = os.path.join(VERIF, "harness")
TLA_CP = "/opt/veriftools/tla/tla2tools.jar:/opt/veriftools/tla/CommunityModules-deps.jar"


class ToolError(Exception):
    pass


def log(*a):
    print(*a, file=sys.stderr, flush=True)


def sh(cmd, **kw):
    return subprocess.run(cmd, shell=isinstance(cmd, str), **kw)


# ----------------------------------------------------------------------------------------------
# building the harness from /repo's current working tree
# ----------------------------------------------------------------------------------------------
_built = {}


def build_harness(features=("likelysubtags", "serde", "macros"), profile="release"):
    """cargo build of the harness against the current /repo tree; returns the binary path.
    Each feature set gets its own target directory so that switching is incremental.
    profile "dev" is an unoptimised build: no tail-call elimination or inlining, so recursion depth is what the source says."""
    key = ",".join(sorted(features))
    ck = key + "|" + profile
    if ck in _built:
        return _built[ck]
    tdir = os.path.join(WORK, "target" if key == "likelysubtags,macros,serde" else "target-" + (key.replace(",", "_") or "none"))
    env = dict(os.environ)
    env["CARGO_TARGET_DIR"] = tdir
    env["CARGO_NET_OFFLINE"] = "true"
    lock = os.path.join(HARNESS, "Cargo.lock")
    if not os.path.exists(lock):
        shutil.copy(os.path.join(REPO, "Cargo.lock"), lock)
    base = ["cargo", "build", "--offline", "--no-default-features"] + (["--release"] if profile == "release" else [])
    t0 = time.time()
    # the #[doc(hidden)] streaming readers are "not stable": first with them (harness feature iterapi), and if that does
    # not build, without -- MC_Iter is then skipped (its cases count as iter_api_not_built), nothing else changes
    p = subprocess.run(base + ["--features", ",".join([f for f in sorted(features)] + ["iterapi"])], cwd=HARNESS, env=env,
                       stdout=subprocess.PIPE, stderr=subprocess.STDOUT, text=True)
    if p.returncode != 0:
        first = p.stdout
        p = subprocess.run(base + (["--features", key] if features else []), cwd=HARNESS, env=env, stdout=subprocess.PIPE, stderr=subprocess.STDOUT, text=True)
        if p.returncode == 0:
            log("[build] harness built WITHOUT the streaming-reader API (feature iterapi did not compile): %s" % first[-300:].replace("\n", " "))
    if p.returncode != 0:
        raise ToolError("harness build failed (features=%s, profile=%s):\n%s" % (key, profile, p.stdout[-4000:]))
    binp = os.path.join(tdir, "release" if profile == "release" else "debug", "ulverif")
    log("[build] harness features=[%s] profile=%s %.1fs" % (key, profile, time.time() - t0))
    _built[ck] = binp
    return binp


# ----------------------------------------------------------------------------------------------
# source-literal dictionary: words the code itself mentions
# ----------------------------------------------------------------------------------------------
def source_dictionary(cap=40):
    """Every short alphanumeric word that occurs in the library's sources as a string / byte-string / char literal or
    as an integer literal that decodes (little- or big-endian) to ASCII alphanumerics.  Bounded alphabets cannot
    contain a word the code treats specially; the code's own text can."""
    import glob
    words = set()
    files = []
    for f in sorted(glob.glob(os.path.join(REPO, "unic-*", "src", "**", "*.rs"), recursive=True)):
        if "/bin/" in f or f.endswith("tables.rs") or f.endswith("layout_table.rs"):
            continue
        files.append(f)
        src = re.sub(r"//[^\n]*", "", open(f, errors="replace").read())
        for m in re.finditer(r'b?"([A-Za-z0-9_\-]{1,40})"', src):
            for t in re.split(r"[-_]", m.group(1)):
                if 1 <= len(t) <= 8:
                    words.add(t)
        for m in re.finditer(r"b?'([A-Za-z0-9])'", src):
            words.add(m.group(1))
        for m in re.finditer(r"\b(0x[0-9a-fA-F_]{3,}|[0-9][0-9_]{3,})(?:u8|u16|u32|u64|u128|usize|i32|i64)?\b", src):
            lit = m.group(1).replace("_", "")
            try:
                v = int(lit, 16) if lit.startswith("0x") else int(lit)
            except ValueError:
                continue
            if v <= 0xFFFF or v >= 1 << 64:
                continue
            raw = v.to_bytes(8, "little").rstrip(b"\0")
            for bs in (raw, raw[::-1]):
                if 2 <= len(bs) <= 8 and all(chr(x).isalnum() and x < 128 for x in bs):
                    words.add(bs.decode())
    ws = sorted(words)
    note = None
    if len(ws) > cap:
        note = "source dictionary has %d words, only the first %d are used" % (len(ws), cap)
        ws = ws[:cap]
    d = os.path.join(WORK, "data")
    os.makedirs(d, exist_ok=True)
    path = os.path.join(d, "dict.json")
    json.dump([[ord(ch) for ch in w] for w in ws], open(path, "w"))
    os.environ["VERIF_DICT"] = path
    # the same words by the production they fit, in canonical case, for the likely-subtags / direction models (strings there)
    lk = {"langs": sorted({w.lower() for w in ws if re.fullmatch(r"[A-Za-z]{2,3}|[A-Za-z]{5,8}", w) and w.lower() != "und"}),
          "scripts": sorted({w[0].upper() + w[1:].lower() for w in ws if re.fullmatch(r"[A-Za-z]{4}", w)}),
          "regions": sorted({w.upper() for w in ws if re.fullmatch(r"[A-Za-z]{2}|[0-9]{3}", w)})}
    # whole multi-subtag literals of the sources (a table of special tags matched as a whole): seeds for MC_Meta
    tags = set()
    for f in files:
        src = re.sub(r"//[^\n]*", "", open(f, errors="replace").read())
        for m in re.finditer(r'b?"([A-Za-z0-9]{1,8}(?:[-_][A-Za-z0-9]{1,8}){1,7})"', src):
            tags.add(m.group(1))
    tags = sorted(tags)[:60]
    path3 = os.path.join(d, "dict_tags.json")
    json.dump([[ord(ch) for ch in t] for t in tags] or [[101, 110, 45, 85, 83]], open(path3, "w"))
    os.environ["VERIF_DICT_TAGS"] = path3
    path2 = os.path.join(d, "dict_likely.json")
    json.dump(lk, open(path2, "w"))
    os.environ["VERIF_DICT_LIKELY"] = path2
    return ws, note, len(files)


# ----------------------------------------------------------------------------------------------
# TLC
# ----------------------------------------------------------------------------------------------
def fresh_dir(name):
    d = os.path.join(WORK, "run", name)
    shutil.rmtree(d, ignore_errors=True)
    os.makedirs(d)
    for f in os.listdir(SPEC):
        if f.endswith(".tla"):
            shutil.copy(os.path.join(SPEC, f), d)
    return d


def write_cfg(path, spec="Spec", constants=None, invariants=(), properties=(), constraint=None,
              view=None, postcondition=None, extra=""):
    lines = ["SPECIFICATION %s" % spec]
    if constants:
        lines.append("CONSTANTS")
        for k, v in constants.items():
            if isinstance(v, bool):
                v = "TRUE" if v else "FALSE"
            elif isinstance(v, str) and not v.startswith("{"):  # model values are strings
                v = '"%s"' % v
            lines.append("  %s = %s" % (k, v))
    if invariants:
        lines.append("INVARIANTS " + " ".join(invariants))
    if properties:
        lines.append("PROPERTIES " + " ".join(properties))
    if constraint:
        lines.append("CONSTRAINT " + constraint)
    if view:
        lines.append("VIEW " + view)
    if postcondition:
        lines.append("POSTCONDITION " + postcondition)
    lines.append("CHECK_DEADLOCK FALSE")
    if extra:
        lines.append(extra)
    open(path, "w").write("\n".join(lines) + "\n")


def unescape_tlc(s):
    return s.replace('\\"', '"').replace("\\\\", "\\")


TLC_STATS = re.compile(r"(\d+) states generated, (\d+) distinct states found, (\d+) states left on queue")


def java_cmd(xmx="6g", xss=None, deque=False):
    cmd = ["java", "-XX:+UseParallelGC", "-Xmx" + xmx]
    if xss:
        cmd.append("-Xss" + xss)
    if deque:
        cmd.append("-Dtlc2.tool.queue.IStateQueue=StateDeque")
    cmd += ["-cp", TLA_CP, "tlc2.TLC"]
    return cmd


def parse_tlc_log(text):
    info = {"states_generated": None, "distinct": None, "ok": False, "error": None}
    m = None
    for m in TLC_STATS.finditer(text):
        pass
    if m:
        info["states_generated"] = int(m.group(1))
        info["distinct"] = int(m.group(2))
        info["queue"] = int(m.group(3))
    if "Model checking completed. No error has been found." in text:
        info["ok"] = True
    elif "Error:" in text or "error" in text.lower():
        i = text.find("Error:")
        info["error"] = text[i:i + 3000] if i >= 0 else text[-3000:]
    sm = re.search(r"The number of states generated: (\d+)", text)
    if sm and info["states_generated"] is None:
        info["states_generated"] = int(sm.group(1))
        info["distinct"] = int(sm.group(1))
        info["simulation"] = True
        info["ok"] = "Error:" not in text
    im = re.search(r"Finished computing initial states: (\d+) distinct state", text)
    info["initial"] = int(im.group(1)) if im else 1
    dm = re.search(r"The depth of the complete state graph search is (\d+)", text)
    if dm:
        info["diameter"] = int(dm.group(1))
    return info


def run_model(name, module, constants, invariants, binp=None, workers=8, timeout=3600, properties=(),
              constraint=None, view=None, replay=True, expect_cases=True, simulate=None, env_extra=None,
              xmx="8g", spec="Spec", extra_args=()):
    """Run one TLC model; pipe its CASE lines into the harness.  Returns a result dict."""
    d = fresh_dir(name)
    cfg = os.path.join(d, module + ".cfg")
    write_cfg(cfg, spec=spec, constants=constants, invariants=invariants, properties=properties,
              constraint=constraint, view=view)
    tlc = java_cmd(xmx=xmx, xss="256m") + ["-workers", str(workers), "-metadir", os.path.join(d, "states"),
                                             "-noGenerateSpecTE", "-config", module + ".cfg"]
    if simulate:
        tlc += ["-simulate", simulate]
    tlc += list(extra_args)
    tlc += [module + ".tla"]
    dis = os.path.join(d, "dis.ndjson")
    tlclog = os.path.join(d, "tlc.log")
    hang = os.path.join(d, "hang.json")
    careful = os.path.join(d, "current_case.json")
    t0 = time.time()
    env = dict(os.environ)
    if env_extra:
        env.update(env_extra)
    res = {"name": name, "module": module, "constants": constants, "dir": d}
    if replay:
        pt = subprocess.Popen(["timeout", str(timeout)] + tlc, cwd=d, stdout=subprocess.PIPE, stderr=subprocess.STDOUT, env=env)
        ph = subprocess.Popen([binp, "replay", "--out", dis, "--tlc-log", tlclog, "--hang", hang, "--careful", careful],
                              cwd=d, stdin=pt.stdout, stdout=subprocess.PIPE, env=env)
        pt.stdout.close()
        out, _ = ph.communicate()
        if ph.returncode != 0:
            pt.kill()
        pt.wait()
        res["harness_rc"] = ph.returncode
        text = open(tlclog, errors="replace").read() if os.path.exists(tlclog) else ""
        if ph.returncode == 3:
            cur = open(hang).read() if os.path.exists(hang) else ""
            res["hang"] = cur
        elif ph.returncode != 0:
            cur = open(careful).read() if os.path.exists(careful) else ""
            res["abort"] = {"rc": ph.returncode, "case": cur}
        else:
            try:
                res["summary"] = json.loads(out.decode().strip().splitlines()[-1])
            except Exception as e:
                raise ToolError("harness summary unreadable for %s: %s / %r" % (name, e, out[-500:]))
        res["tlc_rc"] = pt.returncode
    else:
        p = subprocess.run(["timeout", str(timeout)] + tlc, cwd=d, stdout=subprocess.PIPE, stderr=subprocess.STDOUT, env=env)
        text = p.stdout.decode(errors="replace")
        open(tlclog, "w").write(text)
        res["tlc_rc"] = p.returncode
    res["wall_s"] = round(time.time() - t0, 1)
    info = parse_tlc_log(text)
    res["tlc"] = info
    res["disagreements"] = []
    if os.path.exists(dis):
        for line in open(dis):
            try:
                res["disagreements"].append(json.loads(line))
            except Exception:
                pass
    shutil.rmtree(os.path.join(d, "states"), ignore_errors=True)
    if "hang" in res or "abort" in res:
        # the implementation hung or died on the case named in res: that is the finding; TLC's run was cut short
        log("[model] %s: replay stopped: %s" % (name, "hang" if "hang" in res else "abnormal exit rc=%s" % res["abort"]["rc"]))
        return res
    if res["tlc_rc"] == 124:
        raise ToolError("TLC timed out on %s after %ss" % (name, timeout))
    if simulate:
        if res["tlc_rc"] not in (0,) and "Error:" in text and "Invariant" in text:
            raise ToolError("specification violates its own invariant in %s:\n%s" % (name, text[text.find("Error:"):][:3000]))
    elif not info["ok"]:
        raise ToolError("TLC did not complete cleanly on %s (rc=%s):\n%s" % (name, res["tlc_rc"], (info["error"] or text[-3000:])))
    if replay and expect_cases and "summary" in res and not simulate:
        if isinstance(expect_cases, str) and expect_cases.startswith("distinct-"):
            want = (info["distinct"] or 0) - int(expect_cases.split("-")[1])
        elif expect_cases == "noninitial":
            want = (info["distinct"] or 0) - info.get("initial", 1)
        elif expect_cases == "sweep":
            # one case per class state plus the universe; the class-less initial states print nothing
            want = (info["distinct"] or 0) - info.get("initial", 1) + 1
        else:
            want = {"distinct": info["distinct"], True: info["distinct"],
                    "transitions": (info["states_generated"] or 0) - info.get("initial", 1)}[expect_cases]
        if res["summary"]["cases"] != want:
            raise ToolError("case count mismatch in %s: TLC promised %s cases (%s), harness replayed %s"
                            % (name, want, expect_cases, res["summary"]["cases"]))
    log("[model] %s: %s distinct states, %s generated, %s cases replayed, %d disagreements, %.1fs"
        % (name, info.get("distinct"), info.get("states_generated"), res.get("summary", {}).get("cases"),
           res.get("summary", {}).get("disagreements", 0), res["wall_s"]))
    return res


def collect_cases(name, module, constants, invariants, workers=6, timeout=1800):
    """Run a model and return (tlc info, list of case dicts) without replaying them."""
    d = fresh_dir(name)
    write_cfg(os.path.join(d, module + ".cfg"), constants=constants, invariants=invariants)
    tlc = java_cmd(xmx="6g", xss="256m") + ["-workers", str(workers), "-metadir", os.path.join(d, "states"),
                                             "-noGenerateSpecTE", "-config", module + ".cfg", module + ".tla"]
    p = subprocess.run(["timeout", str(timeout)] + tlc, cwd=d, stdout=subprocess.PIPE, stderr=subprocess.STDOUT)
    text = p.stdout.decode(errors="replace")
    shutil.rmtree(os.path.join(d, "states"), ignore_errors=True)
    cases, rest = [], []
    for line in text.splitlines():
        if line.startswith('"CASE '):
            cases.append(json.loads(unescape_tlc(line[6:-1])))
        else:
            rest.append(line)
    info = parse_tlc_log("\n".join(rest))
    if not info["ok"]:
        raise ToolError("TLC did not complete cleanly on %s:\n%s" % (name, (info["error"] or text[-2000:])))
    return info, cases


def run_proofs(name, module="LikelyProofs", timeout=1500, threads=8):
    """TLAPS: every obligation of the proof module must be discharged, and the negative control module
    (a false statement) must be rejected by the same pipeline."""
    d = fresh_dir(name)
    t0 = time.time()
    # tlapm reads the community modules the specification extends as source files
    subprocess.run(["unzip", "-o", "-q", "-j", TLA_CP.split(":")[1], "SequencesExt.tla", "Folds.tla", "Functions.tla", "FiniteSetsExt.tla"],
                   cwd=d, stdout=subprocess.DEVNULL, stderr=subprocess.DEVNULL)
    def tlapm(mod, extra=("--cleanfp",)):
        p = subprocess.run(["timeout", str(timeout), "tlapm", "--threads", str(threads)] + list(extra) + [mod + ".tla"], cwd=d,
                           stdout=subprocess.PIPE, stderr=subprocess.STDOUT, text=True)
        return p.returncode, p.stdout
    rc, out = tlapm(module)
    m = re.search(r"All (\d+) obligations? proved", out)
    if rc not in (0, 124) and not m:
        # the back-end provers have wall-clock time limits: on a loaded machine an obligation can time out.
        # Retry the unproved ones (proved ones are kept by fingerprint) with the limits stretched.
        log("[proof] %s: retrying unproved obligations with stretched prover time limits" % module)
        rc, out = tlapm(module, extra=("--stretch", "6"))
        m = re.search(r"All (\d+) obligations? proved", out)
    open(os.path.join(d, "tlapm.log"), "w").write(out)
    if rc == 124:
        raise ToolError("tlapm timed out on %s" % module)
    if rc != 0 or not m:
        raise ToolError("TLAPS could not prove %s:\n%s" % (module, out[-3000:]))
    rcn, outn = tlapm(module + "Neg")
    fm = re.search(r"(\d+)/(\d+) obligations? failed", outn)
    if rcn == 0 or not fm:
        raise ToolError("TLAPS negative control %sNeg was NOT rejected:\n%s" % (module, outn[-2000:]))
    theorems = len(re.findall(r"^(THEOREM|LEMMA) ", open(os.path.join(d, module + ".tla")).read(), re.M))
    log("[proof] %s: %s obligations proved (%d theorems/lemmas), negative control rejected, %.1fs" % (module, m.group(1), theorems, time.time() - t0))
    return {"name": name, "module": module, "constants": {}, "dir": d, "wall_s": round(time.time() - t0, 1), "disagreements": [],
            "tlc": {"distinct": 0, "states_generated": 0, "ok": True},
            "tlaps": {"obligations_proved": int(m.group(1)), "theorems": theorems, "negative_control_rejected": True}}


# ----------------------------------------------------------------------------------------------
# trace validation (impl -> spec)
# ----------------------------------------------------------------------------------------------
class DriverDied(ToolError):
    def __init__(self, driver, rc, pending, stderr):
        ToolError.__init__(self, "driver %s died rc=%s while calling %s: %s" % (driver, rc, pending[:600], stderr[-600:]))
        self.driver, self.rc, self.pending = driver, rc, pending


def run_driver(binp, driver, seed, n, out, extra=()):
    cmd = [binp, "drive", driver, "--seed", str(seed), "--n", str(n), "--out", out] + list(extra)
    # the CPU-time limit turns a hang inside the library into a death of the driver, reported with the pending call
    p = subprocess.run(["bash", "-c", "ulimit -t 120; exec \"$@\"", "drv"] + cmd, stdout=subprocess.PIPE, stderr=subprocess.PIPE, text=True)
    if p.returncode != 0:
        pend = ""
        if os.path.exists(out + ".pending"):
            pend = open(out + ".pending", errors="replace").read()
        raise DriverDied(driver, p.returncode, pend, p.stderr)
    try:
        return json.loads(p.stdout.strip().splitlines()[-1])
    except Exception:
        return {}


MISMATCH = re.compile(r'^"MISMATCH (.*)"$')


def validate_trace(name, trace_file, module="Trace", timeout=1800, constants=None, env_extra=None):
    """TLC validates one ndjson trace against Trace.tla.  Returns (events, mismatches[list of dict])."""
    d = fresh_dir(name)
    cfg = os.path.join(d, module + ".cfg")
    write_cfg(cfg, spec="TraceSpec", constants=constants, postcondition="TraceAccepted")
    env = dict(os.environ)
    env["TRACE"] = trace_file
    if env_extra:
        env.update(env_extra)
    cmd = ["timeout", str(timeout)] + java_cmd(xmx="3g", xss="1g", deque=True) + [
        "-workers", "1", "-metadir", os.path.join(d, "states"), "-noGenerateSpecTE", "-config", module + ".cfg", module + ".tla"]
    t0 = time.time()
    p = subprocess.run(cmd, cwd=d, stdout=subprocess.PIPE, stderr=subprocess.STDOUT, env=env)
    text = p.stdout.decode(errors="replace")
    open(os.path.join(d, "tlc.log"), "w").write(text)
    shutil.rmtree(os.path.join(d, "states"), ignore_errors=True)
    if p.returncode == 124:
        raise ToolError("trace validation timed out: %s" % name)
    mism = []
    for line in text.splitlines():
        m = MISMATCH.match(line.strip())
        if m:
            try:
                mism.append(json.loads(unescape_tlc(m.group(1))))
            except Exception:
                mism.append({"raw": line})
    info = parse_tlc_log(text)
    accepted = "TRACE-ACCEPTED" in text
    if not accepted and not mism:
        raise ToolError("trace validation of %s did not run to the end of the trace:\n%s" % (name, text[-3000:]))
    nev = sum(1 for _ in open(trace_file))
    log("[trace] %s: %d events, %d mismatches, %.1fs" % (name, nev, len(mism), time.time() - t0))
    return {"name": name, "events": nev, "mismatches": mism, "accepted": accepted, "tlc": info,
            "wall_s": round(time.time() - t0, 1)}


# ----------------------------------------------------------------------------------------------
# findings, verdict, evidence
# ----------------------------------------------------------------------------------------------
def load_known():
    p = os.path.join(VERIF, "known_findings.json")
    if not os.path.exists(p):
        return []
    return json.load(open(p)).get("findings", [])


def matches_known(entry, prop, dis):
    """An open finding suppresses only the specific failure it names."""
    if entry.get("status") != "open" or entry.get("property") != prop:
        return False
    m = entry.get("match", {})
    det = dis.get("detail", {})
    if "what" in m and m["what"] != dis.get("what"):
        return False
    if "input" in m and m["input"] != det.get("input"):
        return False
    if "panic_at" in m and m["panic_at"] not in json.dumps(det):
        return False
    if "contains" in m and m["contains"] not in json.dumps(dis):
        return False
    return bool(m)


class Check:
    def __init__(self, prop, tier, seed):
        self.prop = prop
        self.tier = tier
        self.seed = seed
        self.t0 = time.time()
        self.models = []
        self.traces = []
        self.dis = []          # disagreements naming this property
        self.other = 0         # disagreements naming only other properties
        self.samples = []
        self.notes = []
        self.extra_cov = {}

    def add_model(self, res):
        self.models.append(res)
        for d in res.get("disagreements", []):
            if self.prop in d.get("props", []):
                d["source"] = res["name"]
                self.dis.append(d)
            else:
                self.other += 1
        if "hang" in res:
            d = {"props": ["C01"], "what": "hang", "detail": {"case": res["hang"][:4000]}, "case": res["hang"], "source": res["name"]}
            if self.prop == "C01":
                self.dis.append(d)
            else:
                raise ToolError("the implementation hung while replaying %s (reported under C01): %s" % (res["name"], res["hang"][:500]))
        if "abort" in res:
            d = {"props": ["C01"], "what": "abort-rc%s" % res["abort"]["rc"], "detail": {"case": res["abort"]["case"][:4000]},
                 "case": res["abort"]["case"], "source": res["name"]}
            if self.prop == "C01":
                self.dis.append(d)
            else:
                raise ToolError("the harness died while replaying %s (reported under C01): rc=%s" % (res["name"], res["abort"]["rc"]))
        for s in res.get("summary", {}).get("samples", [])[:2]:
            if len(self.samples) < 6:
                self.samples.append({"model": res["name"], "case": s[:500]})

    def add_trace(self, res, props_of=None):
        self.traces.append(res)
        for m in res["mismatches"]:
            props = m.get("props") or (props_of(m) if props_of else [self.prop])
            if self.prop in props:
                self.dis.append({"props": props, "what": "trace-" + str(m.get("why", "mismatch")), "detail": m,
                                 "case": json.dumps(m.get("event")) if "event" in m else None, "source": res["name"]})
            else:
                self.other += 1

    def finish(self, level="model_checking", rule="", assumptions=(), exhaustive=None, extra=None):
        known = load_known()
        groups = {}
        for d in self.dis:
            groups.setdefault(d["what"], []).append(d)
        viol = []
        rdir = os.path.join(WORK, "replay")
        os.makedirs(rdir, exist_ok=True)
        for what, ds in sorted(groups.items()):
            unknown = []
            for d in ds:
                k = next((e for e in known if matches_known(e, self.prop, d)), None)
                if k:
                    print("KNOWN-FINDING: property=%s %s" % (self.prop, k.get("what_fails", what)))
                else:
                    unknown.append(d)
            if unknown:
                h = hashlib.sha1((self.prop + what).encode()).hexdigest()[:10]
                path = os.path.join(rdir, "%s-%s.json" % (self.prop, h))
                json.dump({"property": self.prop, "what": what, "count": len(unknown), "tier": self.tier,
                           "seed": self.seed, "examples": unknown[:10]}, open(path, "w"), indent=1)
                viol.append((what, path, unknown[0]))
        states = sum((m["tlc"].get("distinct") or 0) for m in self.models) + sum((t["tlc"].get("distinct") or 0) for t in self.traces)
        trans = sum((m["tlc"].get("states_generated") or 0) for m in self.models) + sum((t["tlc"].get("states_generated") or 0) for t in self.traces)
        cases = sum(m.get("summary", {}).get("cases", 0) for m in self.models)
        events = sum(t["events"] for t in self.traces)
        stats = {}
        for m in self.models:
            for k, v in m.get("summary", {}).get("stats", {}).items():
                stats[k] = stats.get(k, 0) + v
        cov = {
            "states": max(states, 0),
            "transitions": max(trans, 0),
            "traces_validated_against_impl": len(self.traces),
            "trace_events_validated": events,
            "cases_replayed_through_impl": cases,
            "evaluations": cases + events,
            "distinct_nontrivial": self.nontrivial(stats, events),
            "rule": rule,
            "samples": self.samples or [{"note": "no sample captured"}],
            "models": [{"name": m["name"], "module": m["module"], "constants": m["constants"],
                        "distinct_states": m["tlc"].get("distinct"), "states_generated": m["tlc"].get("states_generated"),
                        "diameter": m["tlc"].get("diameter"), "cases_replayed": m.get("summary", {}).get("cases"),
                        "wall_s": m["wall_s"], **({"tlaps": m["tlaps"]} if "tlaps" in m else {})} for m in self.models],
            "traces": [{"name": t["name"], "events": t["events"], "mismatches": len(t["mismatches"]), "wall_s": t["wall_s"]} for t in self.traces],
            "api_calls": stats,
            "disagreements_on_other_properties": self.other,
            "notes": self.notes,
        }
        if exhaustive is not None:
            cov["exhaustive"] = exhaustive
        cov.update(self.extra_cov)
        if extra:
            cov.update(extra)
        ev = {"property_id": self.prop, "tier": self.tier, "seed": self.seed, "level": level, "coverage": cov,
              "assumptions": list(assumptions), "wall_s": round(time.time() - self.t0, 1), "violations": len(viol)}
        os.makedirs(os.path.join(VERIF, "evidence"), exist_ok=True)
        json.dump(ev, open(os.path.join(VERIF, "evidence", self.prop + ".json"), "w"), indent=1)
        for what, path, d in viol:
            print("VIOLATION property=%s replay=%s" % (self.prop, path))
            print("  class: %s (%s)" % (what, d.get("source")))
            print("  first: %s" % json.dumps(d.get("detail"))[:600])
        if viol:
            return 1
        print("OK property=%s tier=%s states=%d cases=%d trace_events=%d wall=%.0fs" %
              (self.prop, self.tier, states, cases, events, time.time() - self.t0))
        return 0

    def require(self, keys):
        """vacuity guard: every named kind of case / operation must actually have been exercised"""
        stats = {}
        for m in self.models:
            for k, v in m.get("summary", {}).get("stats", {}).items():
                stats[k] = stats.get(k, 0) + v
        if any("hang" in m or "abort" in m for m in self.models):
            return
        missing = [k for k in keys if not stats.get(k)]
        if missing:
            raise ToolError("vacuous run for %s: nothing exercised for %s" % (self.prop, missing))

    def nontrivial(self, stats, events):
        # distinct cases that got past the first token / first step, as counted by the harness
        n = 0
        for k in ("li_accepted", "loc_accepted", "hist_step", "match_eval", "cmp_pair", "meta_pair", "parts", "likely", "dir",
                  "raw_language", "raw_script", "raw_region", "raw_variant", "table_entry", "macro_literal"):
            n += stats.get(k, 0)
        return n + events
